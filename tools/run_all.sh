#!/bin/bash
# Runs every registered check of one tier at one seed; prints one summary line per check (verdict lines + exit code + seconds).
#   tools/run_all.sh quick|thorough [seed] [props...]
cd "$(dirname "$(readlink -f "$0")")/.." || exit 3
tier=${1:-quick}; seed=${2:-1}; shift; shift
props=${*:-$(sort tools/registered.txt)}
bad=0
for p in $props; do
  t0=$(date +%s)
  out=$(VERIF_SEED=$seed ./check $p $tier 2>/dev/null); rc=$?
  t1=$(date +%s)
  echo "$p $tier seed=$seed rc=$rc $((t1-t0))s $(echo "$out" | grep -E '^(VIOLATION|INCONCLUSIVE|HARNESS)' | head -5 | tr '\n' ' ')"
  [ $rc -ne 0 ] && bad=1 && echo "$out" | grep -E '^(VIOLATION|  signature|INCONCLUSIVE|HARNESS)' | head -20
done
exit $bad
