#!/usr/bin/env python3
"""Prints the prompt for an independent 'seeded breakage' sub-agent: only the property text + its scratch worktree.
usage: seed_prompt.py Cnn <tag>"""
import json, sys
pid, tag = sys.argv[1], sys.argv[2]
hard = len(sys.argv) > 3 and sys.argv[3] in ("hard", "seq", "surface", "value", "sibling")
sibling = len(sys.argv) > 3 and sys.argv[3] == "sibling"
value = len(sys.argv) > 3 and sys.argv[3] == "value"
seq = len(sys.argv) > 3 and sys.argv[3] == "seq"
surface = len(sys.argv) > 3 and sys.argv[3] == "surface"
benign = len(sys.argv) > 3 and sys.argv[3] == "benign"
p = next(json.loads(l) for l in open('/verif/properties.jsonl') if json.loads(l)['id'] == pid)
a = p['anchors']
wt = f"/tmp/seed/{pid}-{tag}"
HARD = ("""Assume that ordinary randomised testing exists: someone runs the public API on tens of thousands of randomly generated inputs of ordinary size and shape and compares the results with an independent reference. Your changes should be of the kind such testing is UNLIKELY to stumble over: they should need a rare combination of features, an exact boundary count or size (e.g. exactly 256 entries, a value just over a 16-bit limit, the 4th alignment of a padded instruction), a particular ORDER of operations or of elements, a multi-step sequence of API calls, or two code sites that only misbehave together. Subtle beats loud.

""" if hard else "") + ("""For this round, prefer the last two kinds: (1) TWO COOPERATING SITES — two small edits in different functions or files, each of which is harmless (and passes review) on its own, that only break the property together; and (2) STATE / SEQUENCE dependence — the result of a call depends on what was done before it on the same value or in the same process (a cache, a reused buffer, an iterator that is consumed, an accumulated table, mutation through a shared reference, order of insertion surviving into output), so that a single fresh call on fresh input is always right and only the second call, the re-used object, or the particular order goes wrong. At least one of your two changes must be of kind (1) or (2).

""" if seq else "") + ("""For this round, first list for yourself every separate CLAUSE of the statement (each thing it promises) and every public ENTRY POINT, generic instantiation, option or configuration through which the promised behaviour can be reached (in-memory vs file vs directory variants, reader vs multi-reader, one remapper type vs another, a flag such as remap = true / false, N = 2 / 3 / 4 namespaces, a jar held in memory vs opened from a file, ...). Prefer changes of these kinds: (1) ONE VARIANT ONLY — the change breaks the property through one of several equivalent entry points / instantiations / options while the most commonly used one stays right; (2) THE LEAST TESTED CLAUSE — the change breaks the clause of the statement that a tester is least likely to have thought about, leaving the headline behaviour intact; (3) A SHARED HELPER FAR AWAY — the edit is in a helper or another crate of the workspace (string codec, name types, descriptor helpers, jar entry handling, ordering / hashing helpers) that the anchored code calls, and reaches the property only along one specific path; (4) ENVIRONMENT — the result depends on something outside the input value: directory listing order, files already present in an output directory, entry order / compression / metadata inside a zip, a file read in chunks, path shape. At least one of your two changes must be of kind (1) or (2).

""" if surface else "") + ("""For this round, prefer changes whose trigger is a particular VALUE or a particular COMBINATION OF TWO INPUT FEATURES, where every other value and each feature on its own still behaves correctly: (1) VALUE-TRIGGERED — a specific character, byte or code point in a name or string (a digit first, a keyword of the text format used as a name, a separator character that is legal inside a name, a character whose UTF-8 / modified-UTF-8 encoding has a particular length), a number at the edge of its type or sign (0, -1, 127/128, 255/256, 32767/32768, 65535, i32::MIN, NaN, -0.0), an EMPTY string / list / comment / table, two EQUAL elements, the FIRST or LAST element of a list, a name that is a prefix or suffix of another name; (2) FEATURE INTERPLAY — two features of the input that each work alone and only go wrong together (e.g. a wide instruction form inside an exception range, a comment on an entry that lacks a name, an inner class inside an array descriptor, a renamed class that is also an annotation type, a parameter on a method that is added by a diff, a classifier together with an import-scoped BOM); (3) A CONVERSION — a narrowing cast, a lossy string conversion, a sort or dedup with a slightly wrong key, a comparison that is case-insensitive or ignores one component. Read the code first and pick sites that the existing tests and an ordinary random generator are unlikely to reach with the needed value. At least one of your two changes must be of kind (2).

""" if value else "") + ("""For this round, look for SYMMETRIC SIBLINGS in the code involved: places where the same thing is done N times for N parallel cases - the levels class / field / method / parameter / comment; visible vs invisible and type vs plain annotations at class, field, method, code and record-component level; the client and the server side; read vs write of the same structure; the field, method and return variants of a descriptor; each namespace column; Add / Remove / Edit / None; each attribute kind; each opcode family; the in-memory, file and directory variants; forward vs backward; first vs later elements. Your changes should break the property for EXACTLY ONE sibling (preferably the rarest, most deeply nested or least conspicuous one, e.g. the invisible type annotations of a record component, the parameter comments on the second side, the fourth namespace, the last opcode of a family) and leave all its siblings correct, in the way a copy-and-paste slip or an incomplete refactoring does - so that a tester who checks 'the' behaviour through the common siblings sees nothing. State in the README which siblings exist and which one is broken. The two changes must be in different sibling families.

""" if sibling else "")
if benign:
    print(f"""You are helping to evaluate a verification effort for the Rust workspace zeichenreihe/feather-build-rs (Java class-file reading/writing crates `duke`, `raw_class_file`; jar tooling `dukebox`, `dukenest`; Minecraft mapping-file tooling `quill`; a Maven resolver; a binary in src/). Independent checkers watch the semantic property below. A good checker raises NO alarm on code for which the property still holds. Your job: produce THREE independent, realistic code changes that each change OBSERVABLE behaviour of the code involved while the property, exactly as STATED, still holds for every input — the kind of legitimate refactoring, optimisation or behaviour change a maintainer makes all the time and that an over-strict checker would wrongly flag.

PROPERTY {pid}: {p['title']}
Statement: {p['statement']}
Quantified over: {p['quantifier']['text']}
Code involved: {'; '.join(a.get('files', []))}
Mechanisms: {' | '.join(f"{m['name']} ({m['where']})" for m in a.get('mechanism', []))}

Your scratch git worktree (create it yourself, work ONLY there, never touch /repo or /verif, never look into /verif):
  git -C /repo worktree add --detach {wt} HEAD
Other agents work in parallel in their own worktrees of the same repository: NEVER use `git stash` (the stash is shared by all worktrees; keep your changes in patch files and use `git apply` / `git apply -R`), and keep scratch files inside your own worktree or your own `-out` directory. There is no network; build with `cargo ... --offline` inside the worktree (its own `target/` dir). Existing tests: `cd {wt} && cargo test --workspace --no-fail-fast --offline` (47 tests; the machine is shared, so use `-j 6`).

Kinds of change to aim for (use three different ones): the output is laid out differently but denotes the same thing (another but still deterministic order where the statement does not fix one, another constant-pool order, another choice among equivalent encodings such as ldc_w where ldc would do or goto_w where goto fits, another attribute order, other padding-free formatting the format allows); error values and messages reworded, another error reported first when several apply, an error now returned earlier or later in the processing; internal data structures, caches, pre-allocation, iteration strategy or recursion replaced by something equivalent; stricter or more lenient treatment of inputs that are OUTSIDE the property's domain (malformed input where the property only speaks about well-formed input, or the reverse); extra work that does not show in the result; behaviour for aspects the statement explicitly leaves open. The change must alter something an outside observer CAN see (bytes, order, error text, timing of an error, allocation pattern) — not a pure rename of a local variable — but must keep every promise of the statement for every input in its domain. Be careful and honest: if on reflection a change does break the statement for some input, discard it and find another.

Requirements for EACH of the three changes (A, B, C; small diffs, typically 1–25 changed lines, no test files touched):
1. The workspace compiles and ALL existing tests pass with the change applied (run them; report the result line).
2. A demonstration of the observable difference: a small self-contained Rust test (e.g. `tests/benign_demo_a.rs` in the relevant crate) that exercises the public API and PASSES on the unchanged code and FAILS with the change (because it pins the incidental behaviour that changed), kept separate from the change.
3. A short argument, clause by clause, why the property as stated still holds with the change for every input in its domain.

Deliver in `{wt}-out/A/`, `{wt}-out/B/`, `{wt}-out/C/` (plain directories outside the worktree):
  patch.diff   — `git diff` of the change only (paths relative to the repository root; must apply to a clean checkout of /repo HEAD with `git apply`)
  demo.diff    — patch adding the demonstration only; applies independently of patch.diff
  README.md    — what the change does, what an observer sees differently, the clause-by-clause argument that the property still holds, how to run the demonstration and the outputs you observed with and without the change, and the result line of the existing test suite with the change
When finished, remove the worktree and its build output: `git -C /repo worktree remove --force {wt}` (keep only `{wt}-out`). Final message: a three-line summary per change (what, what is observably different, why the property still holds).""")
    sys.exit(0)
print(f"""You are helping to evaluate a verification effort for the Rust workspace zeichenreihe/feather-build-rs (Java class-file reading/writing crates `duke`, `raw_class_file`; jar tooling `dukebox`, `dukenest`; Minecraft mapping-file tooling `quill`; a Maven resolver; a binary in src/). Your job: produce TWO independent, realistic code changes ("seeded defects") that each BREAK the semantic property below while the workspace still compiles and its existing test suite still passes. They are used to test whether independent checkers notice such breakage, so they must be the kind of regression a maintainer could plausibly introduce (a refactoring slip, a wrong boundary, a forgotten case, an 'optimisation'), not sabotage that any use would expose at once.

PROPERTY {pid}: {p['title']}
Statement: {p['statement']}
Quantified over: {p['quantifier']['text']}
Code involved: {'; '.join(a.get('files', []))}
Mechanisms: {' | '.join(f"{m['name']} ({m['where']})" for m in a.get('mechanism', []))}

Your scratch git worktree (create it yourself, work ONLY there, never touch /repo or /verif, never look into /verif):
  git -C /repo worktree add --detach {wt} HEAD
Other agents work in parallel in their own worktrees of the same repository: NEVER use `git stash` (the stash is shared by all worktrees; keep your changes in patch files and use `git apply` / `git apply -R`), and keep scratch files inside your own worktree or your own `-out` directory. There is no network; build with `cargo ... --offline` inside the worktree (its own `target/` dir). Existing tests: `cd {wt} && cargo test --workspace --no-fail-fast --offline` (47 tests; takes a few minutes to build the first time; the machine is shared, so use `-j 6`).

{HARD}Requirements for EACH of the two changes (call them A and B; they must use different mechanisms / different code locations, and each must be a small diff, typically 1–15 changed lines, that does not touch tests):
1. It needs something SPECIFIC to manifest: an unusual but legal input shape, a particular boundary value, a multi-step sequence of operations, or two cooperating sites that each look fine alone. Ordinary inputs and the repository's existing tests must behave exactly as before. Do not break behaviour for all inputs.
2. The workspace compiles and ALL existing tests pass with the change applied (run them; report the result line).
3. A demonstration: a small self-contained Rust test or program (e.g. an extra file `tests/seed_demo_a.rs` in the relevant crate, or an example) that exercises the public API, PASSES on the unchanged code and FAILS with the change. The demonstration is kept separate from the change (the change patch must not contain it).
4. The change must violate the property as STATED (the statement above), not merely some internal detail.

Deliver in `{wt}-out/A/` and `{wt}-out/B/` (plain directories outside the worktree):
  patch.diff   — `git diff` of the change only (paths relative to the repository root; must apply to a clean checkout of /repo HEAD with `git apply`)
  demo.diff    — `git diff` (or `git diff --no-index`-style new-file patch) adding the demonstration only; applies independently of patch.diff
  README.md    — what the change does, why it breaks the property, exactly what is needed for it to manifest, how to run the demonstration (command line) and the outputs you observed with and without the change, and the result line of the existing test suite with the change
Verify by: clean worktree → apply demo.diff → demo passes; apply patch.diff too → demo fails, existing tests still pass.
When finished, remove the worktree and its build output: `git -C /repo worktree remove --force {wt}` (keep only `{wt}-out`). Final message: a three-line summary per change (what, what it needs to manifest, demo command).""")
