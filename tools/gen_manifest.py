#!/usr/bin/env python3
"""Assembles /verif/MANIFEST.json from harness/props/cNN/manifest.json fragments.
A property without a fragment (or whose fragment says "claimed": false) is listed under not_applicable with its reason."""
import json, os, glob, sys
root = os.path.dirname(os.path.dirname(os.path.abspath(__file__)))
props = [json.loads(l) for l in open(os.path.join(root, 'properties.jsonl'))]
checks, na = [], []
registered = {l.strip() for l in open(os.path.join(root, 'tools', 'registered.txt')) if l.strip()}   # integrated by the lead
for p in props:
    pid = p['id']
    frag_path = os.path.join(root, 'harness', 'props', pid.lower(), 'manifest.json')
    frag = json.load(open(frag_path)) if os.path.exists(frag_path) else None
    if not frag or not frag.get('claimed', True) or pid not in registered:
        na.append({"property_id": pid, "reason": (frag or {}).get('reason', 'monitor not built yet (runtime-monitoring harness under construction); see DESIGN.md section 5 for the planned check')})
        continue
    checks.append({
        "property_id": pid,
        "quick_cmd": f"./check {pid} quick",
        "thorough_cmd": f"./check {pid} thorough",
        "evidence_file": f"/verif/evidence/{pid}.json",
        "replay_cmd_template": f"./check {pid} --replay {{path}}",
        "engine": "fbmon",
        "level_claimed": {"category": frag['level'], "text": frag['level_text'], "design_ref": frag.get('design_ref', f"DESIGN.md section 5, {pid}")},
        "level_note": frag['level_note'],
        "technique": frag['technique'],
    })
manifest = {
    "version": 1,
    "setup_cmd": "./check --setup",
    "hooks": {
        "guard": "cargo feature `verif` of the `duke` crate (off by default)",
        "enable": "the harness workspace depends on duke with features = [\"verif\"] through a path dependency on /repo/duke; ./check rebuilds it from the current tree",
        "baseline_off_cmd": "cd /repo && cargo test --workspace --no-fail-fast --offline",
        "source_commits": [l.strip() for l in open(os.path.join(root, 'tools', 'hook_commits.txt')) if l.strip()],
        "add_only": True,
    },
    "engines": [{
        "name": "fbmon", "path": "/verif/harness",
        "serves_properties": [c['property_id'] for c in checks],
        "kind_free_text": "runtime monitors: the real code is executed on seeded hostile workloads while independent reference-model oracles, invariant walkers, event-log checkers, an allocation monitor, a sandboxed child process and Miri observe the executions",
    }],
    "checks": checks,
    "not_applicable": na,
    "notes": "All checks decide by observing executions of the real code (runtime monitoring). Exit 0 held on what was observed, 1 violation, 2 inconclusive, 3 harness error. Known findings: /verif/known_findings.json.",
}
json.dump(manifest, open(os.path.join(root, 'MANIFEST.json'), 'w'), indent=1)
print(f"{len(checks)} checks, {len(na)} not claimed")
