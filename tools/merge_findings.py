#!/usr/bin/env python3
"""Merges harness/props/cNN/findings.json entries into /verif/known_findings.json (by signature; lead runs it by hand)."""
import json, sys, os
pid = sys.argv[1].lower()
src = f'/verif/harness/props/{pid}/findings.json'
if not os.path.exists(src): print('no findings.json'); sys.exit(0)
new = json.load(open(src))
if isinstance(new, dict): new = new.get('findings', [])
d = json.load(open('/verif/known_findings.json'))
have = {f['signature'] for f in d['findings']}
added = 0
for f in new:
    if f.get('signature') and f['signature'] not in have:
        d['findings'].append(f); have.add(f['signature']); added += 1
json.dump(d, open('/verif/known_findings.json', 'w'), indent=1, ensure_ascii=False)
print(f'{added} added, {len(d["findings"])} findings now')
