#!/usr/bin/env python3
"""Refreshes the generated tables of DESIGN.md section 11 (between the BEGIN/END GENERATED markers):
fix commits of /repo, known findings, seeded changes."""
import json, re, subprocess, glob
root = '/verif'
log = subprocess.check_output(['git', '-C', '/repo', 'log', '--reverse', '--format=%h|%s']).decode().splitlines()
fixes = [l.split('|', 1) for l in log if '|fix:' in l]
hooks = [l.split('|', 1) for l in log if '|verif hook:' in l]
kf = json.load(open(f'{root}/known_findings.json'))
def prop_of(commit):
    for f in kf['fixed']:
        m = re.match(r'fixed: property=(C\d+) (\w+) ', f)
        if m and m.group(2).startswith(commit[:7]): return m.group(1)
    return '?'
out = []
out.append(f"**Repairs in /repo ({len(fixes)} `fix:` commits, each found by the monitor of the property named; the 47 tests pass after each).**\n")
out.append("| commit | property | what was wrong |\n|---|---|---|")
for h, s in fixes: out.append(f"| {h} | {prop_of(h)} | {s[len('fix: '):]} |")
out.append("")
out.append(f"**Hook commits ({len(hooks)}, feature `verif`, add-only):** " + "; ".join(f"{h} {s[len('verif hook: '):]}" for h, s in hooks) + ".\n")
out.append(f"**Known findings recorded rather than repaired ({len(kf['findings'])} signatures in `known_findings.json`).**\n")
out.append("| property | signature | why not repaired |\n|---|---|---|")
why = {
 'C07 fact .record:missing(empty': 'the tree stores record components in a plain Vec, so "record without components" cannot be represented; needs a tree change (the C01 finding seen through remap)',
 'C07 fact .record:missing': 'remap has a TODO here; the fields of duke\'s RecordComponent are crate-private, so dukebox cannot rebuild a component: needs an API decision in duke, not a small patch',
 'C07 fact .module:missing': 'remap has a TODO here; the fields of duke\'s Module (uses / provides carry class references) are crate-private: needs an API decision in duke',
 'C07 fact .module_packages:missing': 'belongs to the Module repair: the package list has to follow classes that the mappings move to another package, which needs a package-level view remap does not have',
 'InvokeDynamic.name:not_remapped': 'the call-site name is a method of the functional interface; renaming it needs the interface looked up from the call-site descriptor and the first bootstrap argument: a feature (TODO in the source)',
 'element_name:not_remapped': 'an element name is a method of the annotation interface; renaming it needs a jar-level lookup of that interface\'s methods (no descriptor at hand): a feature (TODO in the source)',
 'frames:missing': 'the writer has no StackMapTable emitter at all (a TODO in the source); writing one is a feature, not a small repair. The C13 / C14 signatures are the same loss seen through merge / nesting',
 'long/double': 'the crate models the pool as a plain Vec without the unusable second slot; a repair changes the public data model',
 'record:missing': 'the tree stores record components in a plain Vec, so "record without components" cannot be represented; needs a tree change',
 'param_annotations:missing': 'the tree has no field for parameter annotations (TODO in the reader); needs a tree + visitor change',
 'backslash-n': 'needs a decision on the escaping rules of the Tiny v2 comment column (the writer escapes only LF)',
 'contains TAB': 'same escaping decision',
 'ends with CR': 'same escaping decision',
 'element values nested': 'unbounded recursion; a depth limit would reject (absurd but) well-formed classes, an iterative reader is a rewrite. Proposed limit patch kept in proposed_fixes/C16-recursion-limits.diff',
 'indented 256+ deep': 'same: recursion in the Enigma reader; proposed limit patch kept',
}
for f in kf['findings']:
    w = next((v for k, v in why.items() if k in f['signature']), '')
    out.append(f"| {f['property']} | `{f['signature']}` | {w} |")
out.append("")
rows = []
n_first = 0
for fn in sorted(glob.glob(f'{root}/seeded/*/meta.json')):
    m = json.load(open(fn)); mr = m['monitor_run']
    sig = mr['signatures'][0] if mr['signatures'] else '-'
    more = f" (+{len(mr['signatures'])-1})" if len(mr['signatures']) > 1 else ''
    first = 'missed at first, caught after strengthening ¹' if m.get('history') else 'yes'
    if not m.get('history'): n_first += 1
    if not mr['detected']: first = '**NOT caught**'
    rows.append(f"| {m['id']} | {m['property']} | {m['needs_to_manifest']} | {first} | `{sig}`{more} |")
out.append(f"**Independently seeded changes ({len(rows)} confirmed; {n_first} caught by the quick tier as it was, the others after the monitor was strengthened — what was added is in `seeded/<id>/meta.json` under `history`).**\n")
out.append("| seeded change | property | needs, to manifest | caught by the quick tier | first signature |\n|---|---|---|---|---|")
out += rows
brows = []
n_alarm = 0
for fn in sorted(glob.glob(f'{root}/benign/*/meta.json')):
    m = json.load(open(fn)); mr = m['monitor_run']
    others = m.get('other_monitors_quick_exit', {})
    verdict = 'silent' if mr['silent'] else '**alarm**'
    if mr.get('exit') == 2: verdict = 'inconclusive (coverage obligations unmet, no alarm) ³'
    elif m.get('history'): verdict = 'alarm (own or another monitor) or inconclusive at first, monitor corrected ²'; n_alarm += 1
    o = (', '.join(sorted(others)) + ': ' + ('all silent' if all(v == 0 for v in others.values()) else 'see meta.json')) if others else '-'
    brows.append(f"| {m['id']} | {m['property']} | {m['what']} | {verdict} | {o} |")
out.append("")
out.append(f"**Benign changes ({len(brows)} confirmed: observable behaviour changes, the property as stated still holds; {n_alarm} raised a false alarm - or an inconclusive verdict - in their own or another monitor at first and led to a corrected monitor).**\n")
out.append("| benign change | property | what changes | own monitor (quick) | other monitors run against it (quick) |\n|---|---|---|---|---|")
out += brows
text = "\n".join(out) + "\n"
d = open(f'{root}/DESIGN.md').read()
a = d.index('<!-- BEGIN GENERATED TABLES -->') + len('<!-- BEGIN GENERATED TABLES -->\n')
b = d.index('<!-- END GENERATED TABLES -->')
open(f'{root}/DESIGN.md', 'w').write(d[:a] + text + d[b:])
print(len(fixes), 'fixes', len(kf['findings']), 'findings', len(rows), 'seeded')
