#!/usr/bin/env python3
"""Files a confirmed BENIGN change (observable behaviour changes, the property as stated still holds) under /verif/benign/<id>/.
usage: benign_file.py <delivery dir> <id> <Cnn> "<what the change does>" "<what an observer sees differently>" ["history"]
Reads <delivery dir>/verify.log (tools/seed_verify.sh) and, if present, <delivery dir>/wide.log (tools/benign_wide.sh)."""
import json, os, re, shutil, sys
src, bid, prop, what, differs = sys.argv[1:6]
history = sys.argv[6] if len(sys.argv) > 6 else None
dst = f"/verif/benign/{bid}"
os.makedirs(dst, exist_ok=True)
for f in ("patch.diff", "demo.diff", "README.md"):
    shutil.copy(os.path.join(src, f), os.path.join(dst, f))
log = open(os.path.join(src, "verify.log")).read()
mon = re.search(r"monitor (C\d+) quick against the change: exit (\d+)", log)
wide = {}
for wp in sorted(f for f in os.listdir(src) if re.fullmatch(r"wide\d*\.log", f)) + []:
    # wide1.log (earlier run) first, wide.log (latest) last: the latest verdict per monitor wins
    pass
for name in [f for f in sorted(os.listdir(src)) if re.fullmatch(r"wide\d+\.log", f)] + (["wide.log"] if os.path.exists(os.path.join(src, "wide.log")) else []):
    for m in re.finditer(r"^(C\d+) quick exit (\d+)", open(os.path.join(src, name)).read(), re.M): wide[m.group(1)] = int(m.group(2))
meta = {
    "id": bid, "property": prop, "kind": "benign (property-preserving behaviour change; a check that reports it raises a false alarm)",
    "origin": "independent sub-agent given only the property text and a scratch worktree",
    "what": what, "observable_difference": differs,
    "confirmed": {
        "demo_passes_on_unchanged_code": "demo on unchanged code: exit 0" in log,
        "demo_fails_with_change": bool(re.search(r"demo with the change:\s+exit (?!0 )\d+", log)),
        "existing_suite_passes_with_change": "existing suite with the change: exit 0" in log,
        "property_still_holds": "argued clause by clause in README.md and reviewed by hand before filing",
    },
    "monitor_run": {
        "command": f"tools/with_mutant.sh seed-{prop} benign/{bid}/patch.diff {prop} quick",
        "exit": int(mon.group(2)) if mon else None,
        "silent": bool(mon and mon.group(2) == "0"),
    },
    **({"other_monitors_quick_exit": wide} if wide else {}),
    "verify_log": [l for l in log.strip().splitlines()][:40],
    **({"history": history} if history else {}),
}
json.dump(meta, open(os.path.join(dst, "meta.json"), "w"), indent=1)
print(dst, "silent" if meta["monitor_run"]["silent"] else "ALARM", wide)
