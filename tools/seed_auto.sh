#!/bin/bash
# Confirms every delivery (A, B, ...) of one seeding sub-agent and runs the quick monitor against it.
#   tools/seed_auto.sh <Cnn> <tag>        (deliveries in /tmp/seed/<Cnn>-<tag>-out/<X>/)
# The demonstration's crate and test name are taken from the `+++ b/<crate>/tests/<name>.rs` line of demo.diff
# (root package: `tests/<name>.rs`); anything else needs tools/seed_verify.sh with DEMO_CMD by hand.
prop=$1; tag=$2
for d in /tmp/seed/$prop-$tag-out/*/; do
  d=${d%/}
  [ -f "$d/patch.diff" ] || continue
  f=$(grep -m1 -E '^\+\+\+ b/.*(tests|examples)/[A-Za-z0-9_]+\.rs' "$d/demo.diff" | sed 's#^+++ b/##')
  name=$(basename "$f" .rs)
  crate=$(echo "$f" | sed -E 's#/?(tests|examples)/.*##')
  kind=$(echo "$f" | grep -q '/examples/\|^examples/' && echo example || echo test)
  echo "=== $d  (demo: $f)"
  if [ -z "$f" ]; then echo "cannot find the demo file in demo.diff - verify by hand"; continue; fi
  if [ -z "$crate" ]; then
    if [ "$kind" = test ]; then DEMO_CMD="cargo test --offline -j 8 --test $name" /verif/tools/seed_verify.sh "$d" "$prop" feather-build-rs "$name"
    else DEMO_CMD="cargo run --offline -j 8 --example $name" /verif/tools/seed_verify.sh "$d" "$prop" feather-build-rs "$name"; fi
  else
    # package name = directory name for every crate of the workspace
    if [ "$kind" = test ]; then /verif/tools/seed_verify.sh "$d" "$prop" "$(basename "$crate")" "$name"
    else DEMO_CMD="cargo run --offline -j 8 -p $(basename "$crate") --example $name" /verif/tools/seed_verify.sh "$d" "$prop" "$(basename "$crate")" "$name"; fi
  fi
done
