#!/bin/bash
# Regression over the filed seeded changes: runs the quick tier of the property's monitor against every seeded/<id>/patch.diff
# (scratch mutant slots, nothing written to /repo) and records verdict + first signatures in scratch/regress/<id>.txt.
#   tools/seeded_regress.sh [lanes=4] [Cnn ...]
# A change that was detected when filed and is not detected now is printed as REGRESSION.
cd "$(dirname "$(readlink -f "$0")")/.." || exit 3
lanes=${1:-4}; shift
props=${*:-$(sort tools/registered.txt)}
mkdir -p scratch/regress
lane() {
  for p in "$@"; do
    for d in seeded/$p-*/; do
      id=$(basename "$d")
      # a change filed under another property's monitor (see its meta.json) is run against that monitor
      mon=$(jq -r '.monitor_run.command' "$d/meta.json" | grep -oE ' C[0-9][0-9] quick' | head -1 | tr -d ' ' | sed 's/quick//')
      [ -z "$mon" ] && mon=$p
      out=$(nice -n 10 tools/with_mutant.sh "reg-$p" "$d/patch.diff" "$mon" quick 2>&1); rc=$?
      { echo "exit $rc monitor $mon"; echo "$out" | grep -E '^(VIOLATION|  signature|INCONCLUSIVE|HARNESS-ERROR|HELD)' | head -8 | cut -c1-240; } > "scratch/regress/$id.txt"
      was=$(jq -r '.monitor_run.detected' "$d/meta.json")
      if [ "$was" = true ] && [ $rc -ne 1 ]; then echo "REGRESSION $id: exit $rc (was detected when filed)"; else echo "ok $id exit $rc"; fi
    done
    tools/with_mutant.sh "reg-$p" --clean
  done
}
i=0; declare -a L
for p in $props; do L[$((i % lanes))]+="$p "; i=$((i+1)); done
for k in $(seq 0 $((lanes-1))); do lane ${L[$k]} & done
wait
