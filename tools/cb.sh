#!/bin/bash
# compact build: only errors (and warnings from the harness itself)
cd /verif/harness && cargo build --release --offline "$@" 2>&1 | awk '/^(error|warning)/{p=0} /^error/{p=1} /^warning/{getline l; if (l ~ /--> (common|cf|maps|props)\//) {print; print l; p=1} else p=0; next} p{print}' | head -${CB_LINES:-120}
