#!/usr/bin/env python3
"""Markdown table of /verif/seeded/*/meta.json (for DESIGN.md section 11)."""
import json, glob, os
rows = []
for f in sorted(glob.glob('/verif/seeded/*/meta.json')):
    m = json.load(open(f))
    mr = m['monitor_run']
    sig = (mr['signatures'][0] if mr['signatures'] else '-')
    more = f" (+{len(mr['signatures'])-1})" if len(mr['signatures']) > 1 else ''
    hist = ' ¹' if m.get('history') else ''
    rows.append(f"| {m['id']} | {m['property']} | {m['needs_to_manifest']} | {'yes' if mr['detected'] else '**no**'}{hist} | `{sig}`{more} |")
print("| seeded change | property | needs, to manifest | caught by quick tier | first signature |")
print("|---|---|---|---|---|")
print("\n".join(rows))
