#!/bin/bash
# Confirms a seeded change delivered by an independent sub-agent, then runs a monitor against it.
#   tools/seed_verify.sh <delivery dir (patch.diff, demo.diff, README.md)> <Cnn> <crate> <test name>
#   env DEMO_CMD='cargo test ...' replaces the default demo command (cargo test -p <crate> --test <test name>), run inside the scratch worktree
# 1. persistent scratch worktree /tmp/seedv/wt (own target dir, reused): reset to /repo HEAD
# 2. demo.diff only            -> demo must PASS
# 3. demo.diff + patch.diff    -> demo must FAIL, existing test suite must PASS
# 4. monitor (quick tier) via tools/with_mutant.sh against patch.diff -> verdict printed
# Results are appended to <delivery dir>/verify.log; nothing is written to /repo.
set -u
dir=$(readlink -f "$1"); prop=$2; crate=$3; tname=$4
wt=${SEEDV_WT:-/tmp/seedv/wt}
log="$dir/verify.log"
if [ "${MONITOR_ONLY:-0}" = 1 ]; then
  # re-run of the monitor only (after the monitor was strengthened); the confirmation part of verify.log is kept
  sed -i '/^monitor /,$d' "$log"
  cd /verif
  tools/with_mutant.sh "seed-$prop" "$dir/patch.diff" "$prop" quick >"$dir/monitor.out" 2>&1; rc_mon=$?
  echo "monitor $prop quick against the change: exit $rc_mon" | tee -a "$log"
  grep -E '^(VIOLATION|  signature|INCONCLUSIVE|HARNESS-ERROR|HELD)' "$dir/monitor.out" | cut -c1-300 | tee -a "$log"
  exit 0
fi
: > "$log"
if [ ! -d "$wt" ]; then mkdir -p /tmp/seedv; git -C /repo worktree add --detach -f "$wt" HEAD >/dev/null 2>&1 || { echo "cannot create worktree"; exit 3; }; fi
git -C "$wt" checkout -q --detach "$(git -C /repo rev-parse HEAD)" && git -C "$wt" reset -q --hard && git -C "$wt" clean -qfd -e target
cd "$wt" || exit 3
git apply "$dir/demo.diff" || { echo "demo.diff does not apply" | tee -a "$log"; exit 3; }
if [ -n "${DEMO_CMD:-}" ]; then bash -c "$DEMO_CMD" >"$dir/demo_clean.out" 2>&1; else cargo test --offline -j 8 -p "$crate" --test "$tname" >"$dir/demo_clean.out" 2>&1; fi; rc_clean=$?
echo "demo on unchanged code: exit $rc_clean ($(grep -E '^test result' "$dir/demo_clean.out" | tail -1))" | tee -a "$log"
git apply "$dir/patch.diff" || { echo "patch.diff does not apply to HEAD" | tee -a "$log"; exit 3; }
if [ -n "${DEMO_CMD:-}" ]; then bash -c "$DEMO_CMD" >"$dir/demo_patched.out" 2>&1; else cargo test --offline -j 8 -p "$crate" --test "$tname" >"$dir/demo_patched.out" 2>&1; fi; rc_pat=$?
echo "demo with the change:   exit $rc_pat ($(grep -E '^test result' "$dir/demo_patched.out" | tail -1))" | tee -a "$log"
# existing suite with the change but without the demo
git -C "$wt" reset -q --hard && git -C "$wt" clean -qfd -e target && git apply "$dir/patch.diff"
cargo test --workspace --no-fail-fast --offline -j 8 >"$dir/suite_patched.out" 2>&1; rc_suite=$?
passed=$(grep -E '^test result' "$dir/suite_patched.out" | awk '{p+=$4; f+=$6} END {print p" passed, "f" failed"}')
echo "existing suite with the change: exit $rc_suite ($passed)" | tee -a "$log"
git -C "$wt" reset -q --hard && git -C "$wt" clean -qfd -e target
ok=no; [ $rc_clean -eq 0 ] && [ $rc_pat -ne 0 ] && [ $rc_suite -eq 0 ] && ok=yes
echo "confirmed: $ok" | tee -a "$log"
cd /verif
tools/with_mutant.sh "seed-$prop" "$dir/patch.diff" "$prop" quick >"$dir/monitor.out" 2>&1; rc_mon=$?
echo "monitor $prop quick against the change: exit $rc_mon" | tee -a "$log"
grep -E '^(VIOLATION|  signature|INCONCLUSIVE|HARNESS-ERROR|HELD)' "$dir/monitor.out" | cut -c1-300 | tee -a "$log"
