package p;

public class Old {
    int f;
    public int m(int a, Object o) { int r = 0; try { r = a / f; } catch (ArithmeticException e) { r = -1; } finally { f++; } if (o instanceof String) { r += ((String) o).length(); } return r; }
    public static String s(String a, int b) { return a + b; }
    interface I { void run(); }
    I anon() { return new I() { public void run() { f = 5; } }; }
    static class N { }
    class In { int g() { return f; } }
}
