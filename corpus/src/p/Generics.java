package p;

import java.util.*;
import java.util.function.*;

public class Generics {
    public interface Source<T> { T next(); }
    public static abstract class Base<T extends Number> implements Source<T>, Comparator<T> { public abstract T next(); public int compare(T a, T b) { return Double.compare(a.doubleValue(), b.doubleValue()); } public Number covariant() { return 0; } }
    public static class Impl extends Base<Integer> { int n; @Override public Integer next() { return n++; } @Override public Integer covariant() { return 1; } @Override public int compare(Integer a, Integer b) { return a - b; } }
    public static class StrCmp implements Comparable<StrCmp>, Function<String, Integer> { String s; public int compareTo(StrCmp o) { return s.compareTo(o.s); } public Integer apply(String x) { return x.length(); } }
    public static <A, B extends Comparable<? super B>> Map<A, List<B>> group(Collection<? extends A> as, Function<? super A, ? extends B> f) { Map<A, List<B>> m = new HashMap<>(); for (A a : as) m.computeIfAbsent(a, k -> new ArrayList<>()).add(f.apply(a)); return m; }
    public static class Node<T> implements Cloneable { T v; Node<T> next; @Override public Node<T> clone() { try { @SuppressWarnings("unchecked") Node<T> n = (Node<T>) super.clone(); return n; } catch (CloneNotSupportedException e) { throw new AssertionError(e); } } }
}
