package p;

import java.lang.annotation.*;
import java.util.*;

public class Annos {
    @Retention(RetentionPolicy.RUNTIME) @Target({ElementType.TYPE, ElementType.FIELD, ElementType.METHOD, ElementType.PARAMETER, ElementType.CONSTRUCTOR, ElementType.LOCAL_VARIABLE}) public @interface Vis { int value() default 7; String name() default "n"; Class<?> type() default Object.class; Kind kind() default Kind.A; long[] longs() default {1, 2}; Nested nested() default @Nested(x = 2.5); Nested[] many() default {}; byte b() default 1; char c() default 'c'; short s() default 2; float f() default 1f; double d() default 2d; boolean z() default true; }
    @Retention(RetentionPolicy.CLASS) public @interface Invis { String[] value(); }
    @Retention(RetentionPolicy.RUNTIME) public @interface Nested { double x(); }
    @Retention(RetentionPolicy.RUNTIME) @Target({ElementType.TYPE_USE, ElementType.TYPE_PARAMETER}) public @interface TA { int value() default 0; }
    @Retention(RetentionPolicy.CLASS) @Target({ElementType.TYPE_USE, ElementType.TYPE_PARAMETER}) public @interface TB { }
    public enum Kind { A, B }

    @Vis(value = 1, name = "cls", type = String.class, kind = Kind.B, longs = {}, nested = @Nested(x = -0.0), many = {@Nested(x = 1), @Nested(x = Double.NaN)}) @Invis({"a", "b"})
    public static class Target1<@TA(1) T extends @TA(2) Object & @TB Comparable<@TA(3) T>> extends @TA(4) ArrayList<@TB T> implements java.io.@TA(5) Serializable {
        @Vis @Invis({}) @TA(6) public Map<@TA(7) String, @TB List<@TA(8) ? extends @TA(9) Number>> field;
        public @TA(10) String @TA(11) [] @TB [] arr;
        @Vis(2) public <@TA(12) U extends @TA(13) Number> @TA(14) U method(@TA(15) Target1<T> this, @Vis(3) @TA(16) U a, @Invis("p") final int b) throws @TA(17) Exception {
            @TA(18) String local = "x"; Object o = (@TA(19) Object) local; boolean z = o instanceof @TA(20) String; List<String> l = new @TA(21) ArrayList<@TA(22) String>();
            try (java.io.@TA(23) StringReader r = new java.io.StringReader(local)) { r.read(); } catch (java.io.@TA(24) IOException e) { throw e; }
            java.util.function.Supplier<List<String>> s = @TA(25) ArrayList<String>::new; java.util.function.Function<String, Integer> f = @TA(26) String::length;
            this.<@TA(27) String>gen(local); new <@TA(28) Integer>Target1<T>(1); return a;
        }
        <Q> void gen(Q q) { }
        <Q> Target1(Q q) { }
        public Target1() { }
    }
}
