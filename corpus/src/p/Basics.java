package p;

import java.util.*;
import java.util.function.*;

public class Basics<T extends Comparable<T>> implements Comparable<Basics<T>>, java.io.Serializable {
    public static final int I = 42; public static final long L = 1L << 40; public static final double D = 3.141592653589793; public static final float F = 1.5f;
    public static final String S = "héllo\u0000wörld 😀"; static final char C = 'x'; static final boolean Z = true; static final byte B = -7; static final short SH = 300;
    private T value; protected volatile int counter; transient Object cache;
    @Deprecated public int old;
    static int[] table = new int[300];
    static { for (int i = 0; i < table.length; i++) { table[i] = i * i; } }

    public Basics(T value) { this.value = value; }
    @Override public int compareTo(Basics<T> o) { return value.compareTo(o.value); }
    public T get() { return value; }

    public static int sw(int x) { switch (x) { case 0: return 10; case 1: return 11; case 2: return 12; case 5: return 15; default: return -1; } }
    public static int lsw(int x) { switch (x) { case -100: return 1; case 0: return 2; case 1000: return 3; case 100000: return 4; default: return 0; } }
    public static int ssw(String s) { switch (s) { case "a": return 1; case "bb": return 2; case "Aa": case "BB": return 3; default: return 0; } }
    public static String concat(String a, int b, long c, Object d) { return a + b + c + d + "!"; }
    public long arith(long a, int b, double c, float f) { long r = a * b + (long) c - (long) f; r ^= a >>> 3; r |= b << 2; r &= ~5L; return r % 7 == 0 ? -r : r / 3; }
    public static Object arrays(int n) { int[][] m = new int[n][n + 1]; Object[] o = new String[n]; long[] l = new long[2]; char[] c = {'a', 'b'}; boolean[] z = new boolean[1]; byte[] b = new byte[3]; short[] s = new short[1]; float[] f = new float[1]; double[] d = new double[1]; return m.length + o.length + l.length + c.length + (z[0] ? 1 : 0) + b[0] + s[0] + f[0] + d[0]; }
    public int tryCatch(String s) { try { return Integer.parseInt(s); } catch (NumberFormatException | NullPointerException e) { return -1; } finally { counter++; } }
    public synchronized void sync(Object o) { synchronized (o) { counter += 2; } }
    public int loops(List<String> xs) { int n = 0; for (String x : xs) { if (x == null) continue; if (x.isEmpty()) break; n += x.length(); } do { n--; } while (n > 100); while (n < 0) n++; return n; }
    public Runnable lambda(int k) { Supplier<String> s = () -> "v" + k; Function<Integer, Integer> f = Math::abs; BiFunction<Integer, Integer, Integer> g = Integer::sum; return () -> System.out.println(s.get() + f.apply(-k) + g.apply(k, k)); }
    public boolean inst(Object o) { return o instanceof String && ((String) o).length() > 2 || o instanceof int[] || o instanceof Basics<?>[]; }
    public static long bigLocals(long a0, long a1, long a2, long a3, double d0, double d1) { long x = a0 + a1; long y = a2 + a3; double z = d0 * d1; int i = (int) z; i += 200; i -= 1000; return x + y + i; }
    public void varargs(String fmt, Object... args) { System.out.printf(fmt, args); }
    private static native void nat(int x);
    public strictfp double strict(double a) { return a * 2; }

    public class Inner { int z = counter; class Deeper { int q = z; } }
    public static class Nested { static int k = 3; }
    interface Shape { double area(); default String name() { return getClass().getSimpleName(); } static Shape unit() { return () -> 1.0; } }
    enum Color implements Shape { RED { public double area() { return 1; } }, GREEN, BLUE; public double area() { return 0; } }
    Object anon() { return new Object() { @Override public String toString() { return "anon" + value; } }; }
    Object local() { class Loc { int v = counter; } return new Loc(); }
}
