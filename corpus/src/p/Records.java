package p;

import java.util.*;

public class Records {
    public record Point(int x, int y) { public Point { if (x < 0) throw new IllegalArgumentException(); } public double len() { return Math.sqrt(x * x + y * y); } }
    public record Empty() { }
    public record Gen<T extends Comparable<T>>(@Annos.Vis(5) T value, List<? extends T> rest, @Annos.TA int... more) { }
    public sealed interface Expr permits Num, Add, Neg { }
    public record Num(long v) implements Expr { }
    public record Add(Expr l, Expr r) implements Expr { }
    public static final class Neg implements Expr { Expr e; }
    public static long eval(Expr e) { if (e instanceof Num n) return n.v(); if (e instanceof Add a) return eval(a.l()) + eval(a.r()); if (e instanceof Neg n) return -eval(n.e); throw new IllegalStateException(); }
    public static String text() { return """
        multi
          line "text" \t block
        """; }
    public static int sw(Object o) { return switch (o.hashCode() % 3) { case 0 -> 1; case 1 -> { int q = 5; yield q * 2; } default -> 0; }; }
    private int secret; class Mate { int peek() { return secret; } }
}
