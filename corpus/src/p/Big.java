package p;

public class Big {
    static final String[] NAMES = {
        "name0",
        "name1",
        "name2",
        "name3",
        "name4",
        "name5",
        "name6",
        "name7",
        "name8",
        "name9",
        "name10",
        "name11",
        "name12",
        "name13",
        "name14",
        "name15",
        "name16",
        "name17",
        "name18",
        "name19",
        "name20",
        "name21",
        "name22",
        "name23",
        "name24",
        "name25",
        "name26",
        "name27",
        "name28",
        "name29",
        "name30",
        "name31",
        "name32",
        "name33",
        "name34",
        "name35",
        "name36",
        "name37",
        "name38",
        "name39",
        "name40",
        "name41",
        "name42",
        "name43",
        "name44",
        "name45",
        "name46",
        "name47",
        "name48",
        "name49",
        "name50",
        "name51",
        "name52",
        "name53",
        "name54",
        "name55",
        "name56",
        "name57",
        "name58",
        "name59",
        "name60",
        "name61",
        "name62",
        "name63",
        "name64",
        "name65",
        "name66",
        "name67",
        "name68",
        "name69",
        "name70",
        "name71",
        "name72",
        "name73",
        "name74",
        "name75",
        "name76",
        "name77",
        "name78",
        "name79",
        "name80",
        "name81",
        "name82",
        "name83",
        "name84",
        "name85",
        "name86",
        "name87",
        "name88",
        "name89",
        "name90",
        "name91",
        "name92",
        "name93",
        "name94",
        "name95",
        "name96",
        "name97",
        "name98",
        "name99",
        "name100",
        "name101",
        "name102",
        "name103",
        "name104",
        "name105",
        "name106",
        "name107",
        "name108",
        "name109",
        "name110",
        "name111",
        "name112",
        "name113",
        "name114",
        "name115",
        "name116",
        "name117",
        "name118",
        "name119",
        "name120",
        "name121",
        "name122",
        "name123",
        "name124",
        "name125",
        "name126",
        "name127",
        "name128",
        "name129",
        "name130",
        "name131",
        "name132",
        "name133",
        "name134",
        "name135",
        "name136",
        "name137",
        "name138",
        "name139",
        "name140",
        "name141",
        "name142",
        "name143",
        "name144",
        "name145",
        "name146",
        "name147",
        "name148",
        "name149",
        "name150",
        "name151",
        "name152",
        "name153",
        "name154",
        "name155",
        "name156",
        "name157",
        "name158",
        "name159",
        "name160",
        "name161",
        "name162",
        "name163",
        "name164",
        "name165",
        "name166",
        "name167",
        "name168",
        "name169",
        "name170",
        "name171",
        "name172",
        "name173",
        "name174",
        "name175",
        "name176",
        "name177",
        "name178",
        "name179",
        "name180",
        "name181",
        "name182",
        "name183",
        "name184",
        "name185",
        "name186",
        "name187",
        "name188",
        "name189",
        "name190",
        "name191",
        "name192",
        "name193",
        "name194",
        "name195",
        "name196",
        "name197",
        "name198",
        "name199",
        "name200",
        "name201",
        "name202",
        "name203",
        "name204",
        "name205",
        "name206",
        "name207",
        "name208",
        "name209",
        "name210",
        "name211",
        "name212",
        "name213",
        "name214",
        "name215",
        "name216",
        "name217",
        "name218",
        "name219",
        "name220",
        "name221",
        "name222",
        "name223",
        "name224",
        "name225",
        "name226",
        "name227",
        "name228",
        "name229",
        "name230",
        "name231",
        "name232",
        "name233",
        "name234",
        "name235",
        "name236",
        "name237",
        "name238",
        "name239",
        "name240",
        "name241",
        "name242",
        "name243",
        "name244",
        "name245",
        "name246",
        "name247",
        "name248",
        "name249",
        "name250",
        "name251",
        "name252",
        "name253",
        "name254",
        "name255",
        "name256",
        "name257",
        "name258",
        "name259",
        "name260",
        "name261",
        "name262",
        "name263",
        "name264",
        "name265",
        "name266",
        "name267",
        "name268",
        "name269",
        "name270",
        "name271",
        "name272",
        "name273",
        "name274",
        "name275",
        "name276",
        "name277",
        "name278",
        "name279",
        "name280",
        "name281",
        "name282",
        "name283",
        "name284",
        "name285",
        "name286",
        "name287",
        "name288",
        "name289",
        "name290",
        "name291",
        "name292",
        "name293",
        "name294",
        "name295",
        "name296",
        "name297",
        "name298",
        "name299",
        "name300",
        "name301",
        "name302",
        "name303",
        "name304",
        "name305",
        "name306",
        "name307",
        "name308",
        "name309",
        "name310",
        "name311",
        "name312",
        "name313",
        "name314",
        "name315",
        "name316",
        "name317",
        "name318",
        "name319",
        "name320",
        "name321",
        "name322",
        "name323",
        "name324",
        "name325",
        "name326",
        "name327",
        "name328",
        "name329",
        "name330",
        "name331",
        "name332",
        "name333",
        "name334",
        "name335",
        "name336",
        "name337",
        "name338",
        "name339",
        "name340",
        "name341",
        "name342",
        "name343",
        "name344",
        "name345",
        "name346",
        "name347",
        "name348",
        "name349",
        "name350",
        "name351",
        "name352",
        "name353",
        "name354",
        "name355",
        "name356",
        "name357",
        "name358",
        "name359",
        "name360",
        "name361",
        "name362",
        "name363",
        "name364",
        "name365",
        "name366",
        "name367",
        "name368",
        "name369",
        "name370",
        "name371",
        "name372",
        "name373",
        "name374",
        "name375",
        "name376",
        "name377",
        "name378",
        "name379",
        "name380",
        "name381",
        "name382",
        "name383",
        "name384",
        "name385",
        "name386",
        "name387",
        "name388",
        "name389",
        "name390",
        "name391",
        "name392",
        "name393",
        "name394",
        "name395",
        "name396",
        "name397",
        "name398",
        "name399"
    };
    static final double[] DS = { 0.5, 1.5, 2.5, 3.5, 4.5, 5.5, 6.5, 7.5, 8.5, 9.5, 1e10, 1e-10, Double.MAX_VALUE, Double.MIN_VALUE };
    static final long[] LS = { 1L, 10L, 100L, 1000L, 10000L, 100000L, 1000000L, 10000000L, 100000000L, 1000000000L, 10000000000L, Long.MAX_VALUE, Long.MIN_VALUE };
    public static int dispatch(int x) {
        switch (x) {
            case 0: System.out.println("case 0" + NAMES[0]); if (x > 0) { x += 0; } else { x -= 1; } break;
            case 3: System.out.println("case 1" + NAMES[1]); if (x > 1) { x += 1; } else { x -= 1; } break;
            case 6: System.out.println("case 2" + NAMES[2]); if (x > 2) { x += 2; } else { x -= 1; } break;
            case 9: System.out.println("case 3" + NAMES[3]); if (x > 3) { x += 3; } else { x -= 1; } break;
            case 12: System.out.println("case 4" + NAMES[4]); if (x > 4) { x += 4; } else { x -= 1; } break;
            case 15: System.out.println("case 5" + NAMES[5]); if (x > 5) { x += 5; } else { x -= 1; } break;
            case 18: System.out.println("case 6" + NAMES[6]); if (x > 6) { x += 6; } else { x -= 1; } break;
            case 21: System.out.println("case 7" + NAMES[7]); if (x > 7) { x += 7; } else { x -= 1; } break;
            case 24: System.out.println("case 8" + NAMES[8]); if (x > 8) { x += 8; } else { x -= 1; } break;
            case 27: System.out.println("case 9" + NAMES[9]); if (x > 9) { x += 9; } else { x -= 1; } break;
            case 30: System.out.println("case 10" + NAMES[10]); if (x > 10) { x += 10; } else { x -= 1; } break;
            case 33: System.out.println("case 11" + NAMES[11]); if (x > 11) { x += 11; } else { x -= 1; } break;
            case 36: System.out.println("case 12" + NAMES[12]); if (x > 12) { x += 12; } else { x -= 1; } break;
            case 39: System.out.println("case 13" + NAMES[13]); if (x > 13) { x += 13; } else { x -= 1; } break;
            case 42: System.out.println("case 14" + NAMES[14]); if (x > 14) { x += 14; } else { x -= 1; } break;
            case 45: System.out.println("case 15" + NAMES[15]); if (x > 15) { x += 15; } else { x -= 1; } break;
            case 48: System.out.println("case 16" + NAMES[16]); if (x > 16) { x += 16; } else { x -= 1; } break;
            case 51: System.out.println("case 17" + NAMES[17]); if (x > 17) { x += 17; } else { x -= 1; } break;
            case 54: System.out.println("case 18" + NAMES[18]); if (x > 18) { x += 18; } else { x -= 1; } break;
            case 57: System.out.println("case 19" + NAMES[19]); if (x > 19) { x += 19; } else { x -= 1; } break;
            case 60: System.out.println("case 20" + NAMES[20]); if (x > 20) { x += 20; } else { x -= 1; } break;
            case 63: System.out.println("case 21" + NAMES[21]); if (x > 21) { x += 21; } else { x -= 1; } break;
            case 66: System.out.println("case 22" + NAMES[22]); if (x > 22) { x += 22; } else { x -= 1; } break;
            case 69: System.out.println("case 23" + NAMES[23]); if (x > 23) { x += 23; } else { x -= 1; } break;
            case 72: System.out.println("case 24" + NAMES[24]); if (x > 24) { x += 24; } else { x -= 1; } break;
            case 75: System.out.println("case 25" + NAMES[25]); if (x > 25) { x += 25; } else { x -= 1; } break;
            case 78: System.out.println("case 26" + NAMES[26]); if (x > 26) { x += 26; } else { x -= 1; } break;
            case 81: System.out.println("case 27" + NAMES[27]); if (x > 27) { x += 27; } else { x -= 1; } break;
            case 84: System.out.println("case 28" + NAMES[28]); if (x > 28) { x += 28; } else { x -= 1; } break;
            case 87: System.out.println("case 29" + NAMES[29]); if (x > 29) { x += 29; } else { x -= 1; } break;
            case 90: System.out.println("case 30" + NAMES[30]); if (x > 30) { x += 30; } else { x -= 1; } break;
            case 93: System.out.println("case 31" + NAMES[31]); if (x > 31) { x += 31; } else { x -= 1; } break;
            case 96: System.out.println("case 32" + NAMES[32]); if (x > 32) { x += 32; } else { x -= 1; } break;
            case 99: System.out.println("case 33" + NAMES[33]); if (x > 33) { x += 33; } else { x -= 1; } break;
            case 102: System.out.println("case 34" + NAMES[34]); if (x > 34) { x += 34; } else { x -= 1; } break;
            case 105: System.out.println("case 35" + NAMES[35]); if (x > 35) { x += 35; } else { x -= 1; } break;
            case 108: System.out.println("case 36" + NAMES[36]); if (x > 36) { x += 36; } else { x -= 1; } break;
            case 111: System.out.println("case 37" + NAMES[37]); if (x > 37) { x += 37; } else { x -= 1; } break;
            case 114: System.out.println("case 38" + NAMES[38]); if (x > 38) { x += 38; } else { x -= 1; } break;
            case 117: System.out.println("case 39" + NAMES[39]); if (x > 39) { x += 39; } else { x -= 1; } break;
            case 120: System.out.println("case 40" + NAMES[40]); if (x > 40) { x += 40; } else { x -= 1; } break;
            case 123: System.out.println("case 41" + NAMES[41]); if (x > 41) { x += 41; } else { x -= 1; } break;
            case 126: System.out.println("case 42" + NAMES[42]); if (x > 42) { x += 42; } else { x -= 1; } break;
            case 129: System.out.println("case 43" + NAMES[43]); if (x > 43) { x += 43; } else { x -= 1; } break;
            case 132: System.out.println("case 44" + NAMES[44]); if (x > 44) { x += 44; } else { x -= 1; } break;
            case 135: System.out.println("case 45" + NAMES[45]); if (x > 45) { x += 45; } else { x -= 1; } break;
            case 138: System.out.println("case 46" + NAMES[46]); if (x > 46) { x += 46; } else { x -= 1; } break;
            case 141: System.out.println("case 47" + NAMES[47]); if (x > 47) { x += 47; } else { x -= 1; } break;
            case 144: System.out.println("case 48" + NAMES[48]); if (x > 48) { x += 48; } else { x -= 1; } break;
            case 147: System.out.println("case 49" + NAMES[49]); if (x > 49) { x += 49; } else { x -= 1; } break;
            case 150: System.out.println("case 50" + NAMES[50]); if (x > 50) { x += 50; } else { x -= 1; } break;
            case 153: System.out.println("case 51" + NAMES[51]); if (x > 51) { x += 51; } else { x -= 1; } break;
            case 156: System.out.println("case 52" + NAMES[52]); if (x > 52) { x += 52; } else { x -= 1; } break;
            case 159: System.out.println("case 53" + NAMES[53]); if (x > 53) { x += 53; } else { x -= 1; } break;
            case 162: System.out.println("case 54" + NAMES[54]); if (x > 54) { x += 54; } else { x -= 1; } break;
            case 165: System.out.println("case 55" + NAMES[55]); if (x > 55) { x += 55; } else { x -= 1; } break;
            case 168: System.out.println("case 56" + NAMES[56]); if (x > 56) { x += 56; } else { x -= 1; } break;
            case 171: System.out.println("case 57" + NAMES[57]); if (x > 57) { x += 57; } else { x -= 1; } break;
            case 174: System.out.println("case 58" + NAMES[58]); if (x > 58) { x += 58; } else { x -= 1; } break;
            case 177: System.out.println("case 59" + NAMES[59]); if (x > 59) { x += 59; } else { x -= 1; } break;
            case 180: System.out.println("case 60" + NAMES[60]); if (x > 60) { x += 60; } else { x -= 1; } break;
            case 183: System.out.println("case 61" + NAMES[61]); if (x > 61) { x += 61; } else { x -= 1; } break;
            case 186: System.out.println("case 62" + NAMES[62]); if (x > 62) { x += 62; } else { x -= 1; } break;
            case 189: System.out.println("case 63" + NAMES[63]); if (x > 63) { x += 63; } else { x -= 1; } break;
            case 192: System.out.println("case 64" + NAMES[64]); if (x > 64) { x += 64; } else { x -= 1; } break;
            case 195: System.out.println("case 65" + NAMES[65]); if (x > 65) { x += 65; } else { x -= 1; } break;
            case 198: System.out.println("case 66" + NAMES[66]); if (x > 66) { x += 66; } else { x -= 1; } break;
            case 201: System.out.println("case 67" + NAMES[67]); if (x > 67) { x += 67; } else { x -= 1; } break;
            case 204: System.out.println("case 68" + NAMES[68]); if (x > 68) { x += 68; } else { x -= 1; } break;
            case 207: System.out.println("case 69" + NAMES[69]); if (x > 69) { x += 69; } else { x -= 1; } break;
            case 210: System.out.println("case 70" + NAMES[70]); if (x > 70) { x += 70; } else { x -= 1; } break;
            case 213: System.out.println("case 71" + NAMES[71]); if (x > 71) { x += 71; } else { x -= 1; } break;
            case 216: System.out.println("case 72" + NAMES[72]); if (x > 72) { x += 72; } else { x -= 1; } break;
            case 219: System.out.println("case 73" + NAMES[73]); if (x > 73) { x += 73; } else { x -= 1; } break;
            case 222: System.out.println("case 74" + NAMES[74]); if (x > 74) { x += 74; } else { x -= 1; } break;
            case 225: System.out.println("case 75" + NAMES[75]); if (x > 75) { x += 75; } else { x -= 1; } break;
            case 228: System.out.println("case 76" + NAMES[76]); if (x > 76) { x += 76; } else { x -= 1; } break;
            case 231: System.out.println("case 77" + NAMES[77]); if (x > 77) { x += 77; } else { x -= 1; } break;
            case 234: System.out.println("case 78" + NAMES[78]); if (x > 78) { x += 78; } else { x -= 1; } break;
            case 237: System.out.println("case 79" + NAMES[79]); if (x > 79) { x += 79; } else { x -= 1; } break;
            case 240: System.out.println("case 80" + NAMES[80]); if (x > 80) { x += 80; } else { x -= 1; } break;
            case 243: System.out.println("case 81" + NAMES[81]); if (x > 81) { x += 81; } else { x -= 1; } break;
            case 246: System.out.println("case 82" + NAMES[82]); if (x > 82) { x += 82; } else { x -= 1; } break;
            case 249: System.out.println("case 83" + NAMES[83]); if (x > 83) { x += 83; } else { x -= 1; } break;
            case 252: System.out.println("case 84" + NAMES[84]); if (x > 84) { x += 84; } else { x -= 1; } break;
            case 255: System.out.println("case 85" + NAMES[85]); if (x > 85) { x += 85; } else { x -= 1; } break;
            case 258: System.out.println("case 86" + NAMES[86]); if (x > 86) { x += 86; } else { x -= 1; } break;
            case 261: System.out.println("case 87" + NAMES[87]); if (x > 87) { x += 87; } else { x -= 1; } break;
            case 264: System.out.println("case 88" + NAMES[88]); if (x > 88) { x += 88; } else { x -= 1; } break;
            case 267: System.out.println("case 89" + NAMES[89]); if (x > 89) { x += 89; } else { x -= 1; } break;
            case 270: System.out.println("case 90" + NAMES[90]); if (x > 90) { x += 90; } else { x -= 1; } break;
            case 273: System.out.println("case 91" + NAMES[91]); if (x > 91) { x += 91; } else { x -= 1; } break;
            case 276: System.out.println("case 92" + NAMES[92]); if (x > 92) { x += 92; } else { x -= 1; } break;
            case 279: System.out.println("case 93" + NAMES[93]); if (x > 93) { x += 93; } else { x -= 1; } break;
            case 282: System.out.println("case 94" + NAMES[94]); if (x > 94) { x += 94; } else { x -= 1; } break;
            case 285: System.out.println("case 95" + NAMES[95]); if (x > 95) { x += 95; } else { x -= 1; } break;
            case 288: System.out.println("case 96" + NAMES[96]); if (x > 96) { x += 96; } else { x -= 1; } break;
            case 291: System.out.println("case 97" + NAMES[97]); if (x > 97) { x += 97; } else { x -= 1; } break;
            case 294: System.out.println("case 98" + NAMES[98]); if (x > 98) { x += 98; } else { x -= 1; } break;
            case 297: System.out.println("case 99" + NAMES[99]); if (x > 99) { x += 99; } else { x -= 1; } break;
            case 300: System.out.println("case 100" + NAMES[100]); if (x > 100) { x += 100; } else { x -= 1; } break;
            case 303: System.out.println("case 101" + NAMES[101]); if (x > 101) { x += 101; } else { x -= 1; } break;
            case 306: System.out.println("case 102" + NAMES[102]); if (x > 102) { x += 102; } else { x -= 1; } break;
            case 309: System.out.println("case 103" + NAMES[103]); if (x > 103) { x += 103; } else { x -= 1; } break;
            case 312: System.out.println("case 104" + NAMES[104]); if (x > 104) { x += 104; } else { x -= 1; } break;
            case 315: System.out.println("case 105" + NAMES[105]); if (x > 105) { x += 105; } else { x -= 1; } break;
            case 318: System.out.println("case 106" + NAMES[106]); if (x > 106) { x += 106; } else { x -= 1; } break;
            case 321: System.out.println("case 107" + NAMES[107]); if (x > 107) { x += 107; } else { x -= 1; } break;
            case 324: System.out.println("case 108" + NAMES[108]); if (x > 108) { x += 108; } else { x -= 1; } break;
            case 327: System.out.println("case 109" + NAMES[109]); if (x > 109) { x += 109; } else { x -= 1; } break;
            case 330: System.out.println("case 110" + NAMES[110]); if (x > 110) { x += 110; } else { x -= 1; } break;
            case 333: System.out.println("case 111" + NAMES[111]); if (x > 111) { x += 111; } else { x -= 1; } break;
            case 336: System.out.println("case 112" + NAMES[112]); if (x > 112) { x += 112; } else { x -= 1; } break;
            case 339: System.out.println("case 113" + NAMES[113]); if (x > 113) { x += 113; } else { x -= 1; } break;
            case 342: System.out.println("case 114" + NAMES[114]); if (x > 114) { x += 114; } else { x -= 1; } break;
            case 345: System.out.println("case 115" + NAMES[115]); if (x > 115) { x += 115; } else { x -= 1; } break;
            case 348: System.out.println("case 116" + NAMES[116]); if (x > 116) { x += 116; } else { x -= 1; } break;
            case 351: System.out.println("case 117" + NAMES[117]); if (x > 117) { x += 117; } else { x -= 1; } break;
            case 354: System.out.println("case 118" + NAMES[118]); if (x > 118) { x += 118; } else { x -= 1; } break;
            case 357: System.out.println("case 119" + NAMES[119]); if (x > 119) { x += 119; } else { x -= 1; } break;
            case 360: System.out.println("case 120" + NAMES[120]); if (x > 120) { x += 120; } else { x -= 1; } break;
            case 363: System.out.println("case 121" + NAMES[121]); if (x > 121) { x += 121; } else { x -= 1; } break;
            case 366: System.out.println("case 122" + NAMES[122]); if (x > 122) { x += 122; } else { x -= 1; } break;
            case 369: System.out.println("case 123" + NAMES[123]); if (x > 123) { x += 123; } else { x -= 1; } break;
            case 372: System.out.println("case 124" + NAMES[124]); if (x > 124) { x += 124; } else { x -= 1; } break;
            case 375: System.out.println("case 125" + NAMES[125]); if (x > 125) { x += 125; } else { x -= 1; } break;
            case 378: System.out.println("case 126" + NAMES[126]); if (x > 126) { x += 126; } else { x -= 1; } break;
            case 381: System.out.println("case 127" + NAMES[127]); if (x > 127) { x += 127; } else { x -= 1; } break;
            case 384: System.out.println("case 128" + NAMES[128]); if (x > 128) { x += 128; } else { x -= 1; } break;
            case 387: System.out.println("case 129" + NAMES[129]); if (x > 129) { x += 129; } else { x -= 1; } break;
            case 390: System.out.println("case 130" + NAMES[130]); if (x > 130) { x += 130; } else { x -= 1; } break;
            case 393: System.out.println("case 131" + NAMES[131]); if (x > 131) { x += 131; } else { x -= 1; } break;
            case 396: System.out.println("case 132" + NAMES[132]); if (x > 132) { x += 132; } else { x -= 1; } break;
            case 399: System.out.println("case 133" + NAMES[133]); if (x > 133) { x += 133; } else { x -= 1; } break;
            case 402: System.out.println("case 134" + NAMES[134]); if (x > 134) { x += 134; } else { x -= 1; } break;
            case 405: System.out.println("case 135" + NAMES[135]); if (x > 135) { x += 135; } else { x -= 1; } break;
            case 408: System.out.println("case 136" + NAMES[136]); if (x > 136) { x += 136; } else { x -= 1; } break;
            case 411: System.out.println("case 137" + NAMES[137]); if (x > 137) { x += 137; } else { x -= 1; } break;
            case 414: System.out.println("case 138" + NAMES[138]); if (x > 138) { x += 138; } else { x -= 1; } break;
            case 417: System.out.println("case 139" + NAMES[139]); if (x > 139) { x += 139; } else { x -= 1; } break;
            case 420: System.out.println("case 140" + NAMES[140]); if (x > 140) { x += 140; } else { x -= 1; } break;
            case 423: System.out.println("case 141" + NAMES[141]); if (x > 141) { x += 141; } else { x -= 1; } break;
            case 426: System.out.println("case 142" + NAMES[142]); if (x > 142) { x += 142; } else { x -= 1; } break;
            case 429: System.out.println("case 143" + NAMES[143]); if (x > 143) { x += 143; } else { x -= 1; } break;
            case 432: System.out.println("case 144" + NAMES[144]); if (x > 144) { x += 144; } else { x -= 1; } break;
            case 435: System.out.println("case 145" + NAMES[145]); if (x > 145) { x += 145; } else { x -= 1; } break;
            case 438: System.out.println("case 146" + NAMES[146]); if (x > 146) { x += 146; } else { x -= 1; } break;
            case 441: System.out.println("case 147" + NAMES[147]); if (x > 147) { x += 147; } else { x -= 1; } break;
            case 444: System.out.println("case 148" + NAMES[148]); if (x > 148) { x += 148; } else { x -= 1; } break;
            case 447: System.out.println("case 149" + NAMES[149]); if (x > 149) { x += 149; } else { x -= 1; } break;
            case 450: System.out.println("case 150" + NAMES[150]); if (x > 150) { x += 150; } else { x -= 1; } break;
            case 453: System.out.println("case 151" + NAMES[151]); if (x > 151) { x += 151; } else { x -= 1; } break;
            case 456: System.out.println("case 152" + NAMES[152]); if (x > 152) { x += 152; } else { x -= 1; } break;
            case 459: System.out.println("case 153" + NAMES[153]); if (x > 153) { x += 153; } else { x -= 1; } break;
            case 462: System.out.println("case 154" + NAMES[154]); if (x > 154) { x += 154; } else { x -= 1; } break;
            case 465: System.out.println("case 155" + NAMES[155]); if (x > 155) { x += 155; } else { x -= 1; } break;
            case 468: System.out.println("case 156" + NAMES[156]); if (x > 156) { x += 156; } else { x -= 1; } break;
            case 471: System.out.println("case 157" + NAMES[157]); if (x > 157) { x += 157; } else { x -= 1; } break;
            case 474: System.out.println("case 158" + NAMES[158]); if (x > 158) { x += 158; } else { x -= 1; } break;
            case 477: System.out.println("case 159" + NAMES[159]); if (x > 159) { x += 159; } else { x -= 1; } break;
            case 480: System.out.println("case 160" + NAMES[160]); if (x > 160) { x += 160; } else { x -= 1; } break;
            case 483: System.out.println("case 161" + NAMES[161]); if (x > 161) { x += 161; } else { x -= 1; } break;
            case 486: System.out.println("case 162" + NAMES[162]); if (x > 162) { x += 162; } else { x -= 1; } break;
            case 489: System.out.println("case 163" + NAMES[163]); if (x > 163) { x += 163; } else { x -= 1; } break;
            case 492: System.out.println("case 164" + NAMES[164]); if (x > 164) { x += 164; } else { x -= 1; } break;
            case 495: System.out.println("case 165" + NAMES[165]); if (x > 165) { x += 165; } else { x -= 1; } break;
            case 498: System.out.println("case 166" + NAMES[166]); if (x > 166) { x += 166; } else { x -= 1; } break;
            case 501: System.out.println("case 167" + NAMES[167]); if (x > 167) { x += 167; } else { x -= 1; } break;
            case 504: System.out.println("case 168" + NAMES[168]); if (x > 168) { x += 168; } else { x -= 1; } break;
            case 507: System.out.println("case 169" + NAMES[169]); if (x > 169) { x += 169; } else { x -= 1; } break;
            case 510: System.out.println("case 170" + NAMES[170]); if (x > 170) { x += 170; } else { x -= 1; } break;
            case 513: System.out.println("case 171" + NAMES[171]); if (x > 171) { x += 171; } else { x -= 1; } break;
            case 516: System.out.println("case 172" + NAMES[172]); if (x > 172) { x += 172; } else { x -= 1; } break;
            case 519: System.out.println("case 173" + NAMES[173]); if (x > 173) { x += 173; } else { x -= 1; } break;
            case 522: System.out.println("case 174" + NAMES[174]); if (x > 174) { x += 174; } else { x -= 1; } break;
            case 525: System.out.println("case 175" + NAMES[175]); if (x > 175) { x += 175; } else { x -= 1; } break;
            case 528: System.out.println("case 176" + NAMES[176]); if (x > 176) { x += 176; } else { x -= 1; } break;
            case 531: System.out.println("case 177" + NAMES[177]); if (x > 177) { x += 177; } else { x -= 1; } break;
            case 534: System.out.println("case 178" + NAMES[178]); if (x > 178) { x += 178; } else { x -= 1; } break;
            case 537: System.out.println("case 179" + NAMES[179]); if (x > 179) { x += 179; } else { x -= 1; } break;
            case 540: System.out.println("case 180" + NAMES[180]); if (x > 180) { x += 180; } else { x -= 1; } break;
            case 543: System.out.println("case 181" + NAMES[181]); if (x > 181) { x += 181; } else { x -= 1; } break;
            case 546: System.out.println("case 182" + NAMES[182]); if (x > 182) { x += 182; } else { x -= 1; } break;
            case 549: System.out.println("case 183" + NAMES[183]); if (x > 183) { x += 183; } else { x -= 1; } break;
            case 552: System.out.println("case 184" + NAMES[184]); if (x > 184) { x += 184; } else { x -= 1; } break;
            case 555: System.out.println("case 185" + NAMES[185]); if (x > 185) { x += 185; } else { x -= 1; } break;
            case 558: System.out.println("case 186" + NAMES[186]); if (x > 186) { x += 186; } else { x -= 1; } break;
            case 561: System.out.println("case 187" + NAMES[187]); if (x > 187) { x += 187; } else { x -= 1; } break;
            case 564: System.out.println("case 188" + NAMES[188]); if (x > 188) { x += 188; } else { x -= 1; } break;
            case 567: System.out.println("case 189" + NAMES[189]); if (x > 189) { x += 189; } else { x -= 1; } break;
            case 570: System.out.println("case 190" + NAMES[190]); if (x > 190) { x += 190; } else { x -= 1; } break;
            case 573: System.out.println("case 191" + NAMES[191]); if (x > 191) { x += 191; } else { x -= 1; } break;
            case 576: System.out.println("case 192" + NAMES[192]); if (x > 192) { x += 192; } else { x -= 1; } break;
            case 579: System.out.println("case 193" + NAMES[193]); if (x > 193) { x += 193; } else { x -= 1; } break;
            case 582: System.out.println("case 194" + NAMES[194]); if (x > 194) { x += 194; } else { x -= 1; } break;
            case 585: System.out.println("case 195" + NAMES[195]); if (x > 195) { x += 195; } else { x -= 1; } break;
            case 588: System.out.println("case 196" + NAMES[196]); if (x > 196) { x += 196; } else { x -= 1; } break;
            case 591: System.out.println("case 197" + NAMES[197]); if (x > 197) { x += 197; } else { x -= 1; } break;
            case 594: System.out.println("case 198" + NAMES[198]); if (x > 198) { x += 198; } else { x -= 1; } break;
            case 597: System.out.println("case 199" + NAMES[199]); if (x > 199) { x += 199; } else { x -= 1; } break;
            case 600: System.out.println("case 200" + NAMES[200]); if (x > 200) { x += 200; } else { x -= 1; } break;
            case 603: System.out.println("case 201" + NAMES[201]); if (x > 201) { x += 201; } else { x -= 1; } break;
            case 606: System.out.println("case 202" + NAMES[202]); if (x > 202) { x += 202; } else { x -= 1; } break;
            case 609: System.out.println("case 203" + NAMES[203]); if (x > 203) { x += 203; } else { x -= 1; } break;
            case 612: System.out.println("case 204" + NAMES[204]); if (x > 204) { x += 204; } else { x -= 1; } break;
            case 615: System.out.println("case 205" + NAMES[205]); if (x > 205) { x += 205; } else { x -= 1; } break;
            case 618: System.out.println("case 206" + NAMES[206]); if (x > 206) { x += 206; } else { x -= 1; } break;
            case 621: System.out.println("case 207" + NAMES[207]); if (x > 207) { x += 207; } else { x -= 1; } break;
            case 624: System.out.println("case 208" + NAMES[208]); if (x > 208) { x += 208; } else { x -= 1; } break;
            case 627: System.out.println("case 209" + NAMES[209]); if (x > 209) { x += 209; } else { x -= 1; } break;
            case 630: System.out.println("case 210" + NAMES[210]); if (x > 210) { x += 210; } else { x -= 1; } break;
            case 633: System.out.println("case 211" + NAMES[211]); if (x > 211) { x += 211; } else { x -= 1; } break;
            case 636: System.out.println("case 212" + NAMES[212]); if (x > 212) { x += 212; } else { x -= 1; } break;
            case 639: System.out.println("case 213" + NAMES[213]); if (x > 213) { x += 213; } else { x -= 1; } break;
            case 642: System.out.println("case 214" + NAMES[214]); if (x > 214) { x += 214; } else { x -= 1; } break;
            case 645: System.out.println("case 215" + NAMES[215]); if (x > 215) { x += 215; } else { x -= 1; } break;
            case 648: System.out.println("case 216" + NAMES[216]); if (x > 216) { x += 216; } else { x -= 1; } break;
            case 651: System.out.println("case 217" + NAMES[217]); if (x > 217) { x += 217; } else { x -= 1; } break;
            case 654: System.out.println("case 218" + NAMES[218]); if (x > 218) { x += 218; } else { x -= 1; } break;
            case 657: System.out.println("case 219" + NAMES[219]); if (x > 219) { x += 219; } else { x -= 1; } break;
            case 660: System.out.println("case 220" + NAMES[220]); if (x > 220) { x += 220; } else { x -= 1; } break;
            case 663: System.out.println("case 221" + NAMES[221]); if (x > 221) { x += 221; } else { x -= 1; } break;
            case 666: System.out.println("case 222" + NAMES[222]); if (x > 222) { x += 222; } else { x -= 1; } break;
            case 669: System.out.println("case 223" + NAMES[223]); if (x > 223) { x += 223; } else { x -= 1; } break;
            case 672: System.out.println("case 224" + NAMES[224]); if (x > 224) { x += 224; } else { x -= 1; } break;
            case 675: System.out.println("case 225" + NAMES[225]); if (x > 225) { x += 225; } else { x -= 1; } break;
            case 678: System.out.println("case 226" + NAMES[226]); if (x > 226) { x += 226; } else { x -= 1; } break;
            case 681: System.out.println("case 227" + NAMES[227]); if (x > 227) { x += 227; } else { x -= 1; } break;
            case 684: System.out.println("case 228" + NAMES[228]); if (x > 228) { x += 228; } else { x -= 1; } break;
            case 687: System.out.println("case 229" + NAMES[229]); if (x > 229) { x += 229; } else { x -= 1; } break;
            case 690: System.out.println("case 230" + NAMES[230]); if (x > 230) { x += 230; } else { x -= 1; } break;
            case 693: System.out.println("case 231" + NAMES[231]); if (x > 231) { x += 231; } else { x -= 1; } break;
            case 696: System.out.println("case 232" + NAMES[232]); if (x > 232) { x += 232; } else { x -= 1; } break;
            case 699: System.out.println("case 233" + NAMES[233]); if (x > 233) { x += 233; } else { x -= 1; } break;
            case 702: System.out.println("case 234" + NAMES[234]); if (x > 234) { x += 234; } else { x -= 1; } break;
            case 705: System.out.println("case 235" + NAMES[235]); if (x > 235) { x += 235; } else { x -= 1; } break;
            case 708: System.out.println("case 236" + NAMES[236]); if (x > 236) { x += 236; } else { x -= 1; } break;
            case 711: System.out.println("case 237" + NAMES[237]); if (x > 237) { x += 237; } else { x -= 1; } break;
            case 714: System.out.println("case 238" + NAMES[238]); if (x > 238) { x += 238; } else { x -= 1; } break;
            case 717: System.out.println("case 239" + NAMES[239]); if (x > 239) { x += 239; } else { x -= 1; } break;
            case 720: System.out.println("case 240" + NAMES[240]); if (x > 240) { x += 240; } else { x -= 1; } break;
            case 723: System.out.println("case 241" + NAMES[241]); if (x > 241) { x += 241; } else { x -= 1; } break;
            case 726: System.out.println("case 242" + NAMES[242]); if (x > 242) { x += 242; } else { x -= 1; } break;
            case 729: System.out.println("case 243" + NAMES[243]); if (x > 243) { x += 243; } else { x -= 1; } break;
            case 732: System.out.println("case 244" + NAMES[244]); if (x > 244) { x += 244; } else { x -= 1; } break;
            case 735: System.out.println("case 245" + NAMES[245]); if (x > 245) { x += 245; } else { x -= 1; } break;
            case 738: System.out.println("case 246" + NAMES[246]); if (x > 246) { x += 246; } else { x -= 1; } break;
            case 741: System.out.println("case 247" + NAMES[247]); if (x > 247) { x += 247; } else { x -= 1; } break;
            case 744: System.out.println("case 248" + NAMES[248]); if (x > 248) { x += 248; } else { x -= 1; } break;
            case 747: System.out.println("case 249" + NAMES[249]); if (x > 249) { x += 249; } else { x -= 1; } break;
            case 750: System.out.println("case 250" + NAMES[250]); if (x > 250) { x += 250; } else { x -= 1; } break;
            case 753: System.out.println("case 251" + NAMES[251]); if (x > 251) { x += 251; } else { x -= 1; } break;
            case 756: System.out.println("case 252" + NAMES[252]); if (x > 252) { x += 252; } else { x -= 1; } break;
            case 759: System.out.println("case 253" + NAMES[253]); if (x > 253) { x += 253; } else { x -= 1; } break;
            case 762: System.out.println("case 254" + NAMES[254]); if (x > 254) { x += 254; } else { x -= 1; } break;
            case 765: System.out.println("case 255" + NAMES[255]); if (x > 255) { x += 255; } else { x -= 1; } break;
            case 768: System.out.println("case 256" + NAMES[256]); if (x > 256) { x += 256; } else { x -= 1; } break;
            case 771: System.out.println("case 257" + NAMES[257]); if (x > 257) { x += 257; } else { x -= 1; } break;
            case 774: System.out.println("case 258" + NAMES[258]); if (x > 258) { x += 258; } else { x -= 1; } break;
            case 777: System.out.println("case 259" + NAMES[259]); if (x > 259) { x += 259; } else { x -= 1; } break;
            case 780: System.out.println("case 260" + NAMES[260]); if (x > 260) { x += 260; } else { x -= 1; } break;
            case 783: System.out.println("case 261" + NAMES[261]); if (x > 261) { x += 261; } else { x -= 1; } break;
            case 786: System.out.println("case 262" + NAMES[262]); if (x > 262) { x += 262; } else { x -= 1; } break;
            case 789: System.out.println("case 263" + NAMES[263]); if (x > 263) { x += 263; } else { x -= 1; } break;
            case 792: System.out.println("case 264" + NAMES[264]); if (x > 264) { x += 264; } else { x -= 1; } break;
            case 795: System.out.println("case 265" + NAMES[265]); if (x > 265) { x += 265; } else { x -= 1; } break;
            case 798: System.out.println("case 266" + NAMES[266]); if (x > 266) { x += 266; } else { x -= 1; } break;
            case 801: System.out.println("case 267" + NAMES[267]); if (x > 267) { x += 267; } else { x -= 1; } break;
            case 804: System.out.println("case 268" + NAMES[268]); if (x > 268) { x += 268; } else { x -= 1; } break;
            case 807: System.out.println("case 269" + NAMES[269]); if (x > 269) { x += 269; } else { x -= 1; } break;
            case 810: System.out.println("case 270" + NAMES[270]); if (x > 270) { x += 270; } else { x -= 1; } break;
            case 813: System.out.println("case 271" + NAMES[271]); if (x > 271) { x += 271; } else { x -= 1; } break;
            case 816: System.out.println("case 272" + NAMES[272]); if (x > 272) { x += 272; } else { x -= 1; } break;
            case 819: System.out.println("case 273" + NAMES[273]); if (x > 273) { x += 273; } else { x -= 1; } break;
            case 822: System.out.println("case 274" + NAMES[274]); if (x > 274) { x += 274; } else { x -= 1; } break;
            case 825: System.out.println("case 275" + NAMES[275]); if (x > 275) { x += 275; } else { x -= 1; } break;
            case 828: System.out.println("case 276" + NAMES[276]); if (x > 276) { x += 276; } else { x -= 1; } break;
            case 831: System.out.println("case 277" + NAMES[277]); if (x > 277) { x += 277; } else { x -= 1; } break;
            case 834: System.out.println("case 278" + NAMES[278]); if (x > 278) { x += 278; } else { x -= 1; } break;
            case 837: System.out.println("case 279" + NAMES[279]); if (x > 279) { x += 279; } else { x -= 1; } break;
            case 840: System.out.println("case 280" + NAMES[280]); if (x > 280) { x += 280; } else { x -= 1; } break;
            case 843: System.out.println("case 281" + NAMES[281]); if (x > 281) { x += 281; } else { x -= 1; } break;
            case 846: System.out.println("case 282" + NAMES[282]); if (x > 282) { x += 282; } else { x -= 1; } break;
            case 849: System.out.println("case 283" + NAMES[283]); if (x > 283) { x += 283; } else { x -= 1; } break;
            case 852: System.out.println("case 284" + NAMES[284]); if (x > 284) { x += 284; } else { x -= 1; } break;
            case 855: System.out.println("case 285" + NAMES[285]); if (x > 285) { x += 285; } else { x -= 1; } break;
            case 858: System.out.println("case 286" + NAMES[286]); if (x > 286) { x += 286; } else { x -= 1; } break;
            case 861: System.out.println("case 287" + NAMES[287]); if (x > 287) { x += 287; } else { x -= 1; } break;
            case 864: System.out.println("case 288" + NAMES[288]); if (x > 288) { x += 288; } else { x -= 1; } break;
            case 867: System.out.println("case 289" + NAMES[289]); if (x > 289) { x += 289; } else { x -= 1; } break;
            case 870: System.out.println("case 290" + NAMES[290]); if (x > 290) { x += 290; } else { x -= 1; } break;
            case 873: System.out.println("case 291" + NAMES[291]); if (x > 291) { x += 291; } else { x -= 1; } break;
            case 876: System.out.println("case 292" + NAMES[292]); if (x > 292) { x += 292; } else { x -= 1; } break;
            case 879: System.out.println("case 293" + NAMES[293]); if (x > 293) { x += 293; } else { x -= 1; } break;
            case 882: System.out.println("case 294" + NAMES[294]); if (x > 294) { x += 294; } else { x -= 1; } break;
            case 885: System.out.println("case 295" + NAMES[295]); if (x > 295) { x += 295; } else { x -= 1; } break;
            case 888: System.out.println("case 296" + NAMES[296]); if (x > 296) { x += 296; } else { x -= 1; } break;
            case 891: System.out.println("case 297" + NAMES[297]); if (x > 297) { x += 297; } else { x -= 1; } break;
            case 894: System.out.println("case 298" + NAMES[298]); if (x > 298) { x += 298; } else { x -= 1; } break;
            case 897: System.out.println("case 299" + NAMES[299]); if (x > 299) { x += 299; } else { x -= 1; } break;
            default: break;
        }
        return x;
    }
    public static long longChain(long v) {
        if (v % 2 == 0) { v = v * 3L + 0; } else if (v < 1L) { v ^= 0x0L; }
        if (v % 3 == 0) { v = v * 4L + 1000003; } else if (v < 10L) { v ^= 0x9e3779b1L; }
        if (v % 4 == 0) { v = v * 5L + 2000006; } else if (v < 100L) { v ^= 0x13c6ef362L; }
        if (v % 5 == 0) { v = v * 6L + 3000009; } else if (v < 1000L) { v ^= 0x1daa66d13L; }
        if (v % 6 == 0) { v = v * 7L + 4000012; } else if (v < 10000L) { v ^= 0x278dde6c4L; }
        if (v % 7 == 0) { v = v * 8L + 5000015; } else if (v < 100000L) { v ^= 0x317156075L; }
        if (v % 8 == 0) { v = v * 9L + 6000018; } else if (v < 1000000L) { v ^= 0x3b54cda26L; }
        if (v % 9 == 0) { v = v * 10L + 7000021; } else if (v < 10000000L) { v ^= 0x4538453d7L; }
        if (v % 10 == 0) { v = v * 11L + 8000024; } else if (v < 100000000L) { v ^= 0x4f1bbcd88L; }
        if (v % 11 == 0) { v = v * 12L + 9000027; } else if (v < 1000000000L) { v ^= 0x58ff34739L; }
        if (v % 12 == 0) { v = v * 13L + 10000030; } else if (v < 10000000000L) { v ^= 0x62e2ac0eaL; }
        if (v % 13 == 0) { v = v * 14L + 11000033; } else if (v < 100000000000L) { v ^= 0x6cc623a9bL; }
        if (v % 14 == 0) { v = v * 15L + 12000036; } else if (v < 1000000000000L) { v ^= 0x76a99b44cL; }
        if (v % 15 == 0) { v = v * 16L + 13000039; } else if (v < 10000000000000L) { v ^= 0x808d12dfdL; }
        if (v % 16 == 0) { v = v * 17L + 14000042; } else if (v < 100000000000000L) { v ^= 0x8a708a7aeL; }
        if (v % 17 == 0) { v = v * 18L + 15000045; } else if (v < 1000000000000000L) { v ^= 0x94540215fL; }
        if (v % 18 == 0) { v = v * 19L + 16000048; } else if (v < 10000000000000000L) { v ^= 0x9e3779b10L; }
        if (v % 19 == 0) { v = v * 20L + 17000051; } else if (v < 100000000000000000L) { v ^= 0xa81af14c1L; }
        if (v % 20 == 0) { v = v * 21L + 18000054; } else if (v < 1L) { v ^= 0xb1fe68e72L; }
        if (v % 21 == 0) { v = v * 22L + 19000057; } else if (v < 10L) { v ^= 0xbbe1e0823L; }
        if (v % 22 == 0) { v = v * 23L + 20000060; } else if (v < 100L) { v ^= 0xc5c5581d4L; }
        if (v % 23 == 0) { v = v * 24L + 21000063; } else if (v < 1000L) { v ^= 0xcfa8cfb85L; }
        if (v % 24 == 0) { v = v * 25L + 22000066; } else if (v < 10000L) { v ^= 0xd98c47536L; }
        if (v % 25 == 0) { v = v * 26L + 23000069; } else if (v < 100000L) { v ^= 0xe36fbeee7L; }
        if (v % 26 == 0) { v = v * 27L + 24000072; } else if (v < 1000000L) { v ^= 0xed5336898L; }
        if (v % 27 == 0) { v = v * 28L + 25000075; } else if (v < 10000000L) { v ^= 0xf736ae249L; }
        if (v % 28 == 0) { v = v * 29L + 26000078; } else if (v < 100000000L) { v ^= 0x1011a25bfaL; }
        if (v % 29 == 0) { v = v * 30L + 27000081; } else if (v < 1000000000L) { v ^= 0x10afd9d5abL; }
        if (v % 30 == 0) { v = v * 31L + 28000084; } else if (v < 10000000000L) { v ^= 0x114e114f5cL; }
        if (v % 31 == 0) { v = v * 32L + 29000087; } else if (v < 100000000000L) { v ^= 0x11ec48c90dL; }
        if (v % 32 == 0) { v = v * 33L + 30000090; } else if (v < 1000000000000L) { v ^= 0x128a8042beL; }
        if (v % 33 == 0) { v = v * 34L + 31000093; } else if (v < 10000000000000L) { v ^= 0x1328b7bc6fL; }
        if (v % 34 == 0) { v = v * 35L + 32000096; } else if (v < 100000000000000L) { v ^= 0x13c6ef3620L; }
        if (v % 35 == 0) { v = v * 36L + 33000099; } else if (v < 1000000000000000L) { v ^= 0x146526afd1L; }
        if (v % 36 == 0) { v = v * 37L + 34000102; } else if (v < 10000000000000000L) { v ^= 0x15035e2982L; }
        if (v % 37 == 0) { v = v * 38L + 35000105; } else if (v < 100000000000000000L) { v ^= 0x15a195a333L; }
        if (v % 38 == 0) { v = v * 39L + 36000108; } else if (v < 1L) { v ^= 0x163fcd1ce4L; }
        if (v % 39 == 0) { v = v * 40L + 37000111; } else if (v < 10L) { v ^= 0x16de049695L; }
        if (v % 40 == 0) { v = v * 41L + 38000114; } else if (v < 100L) { v ^= 0x177c3c1046L; }
        if (v % 41 == 0) { v = v * 42L + 39000117; } else if (v < 1000L) { v ^= 0x181a7389f7L; }
        if (v % 42 == 0) { v = v * 43L + 40000120; } else if (v < 10000L) { v ^= 0x18b8ab03a8L; }
        if (v % 43 == 0) { v = v * 44L + 41000123; } else if (v < 100000L) { v ^= 0x1956e27d59L; }
        if (v % 44 == 0) { v = v * 45L + 42000126; } else if (v < 1000000L) { v ^= 0x19f519f70aL; }
        if (v % 45 == 0) { v = v * 46L + 43000129; } else if (v < 10000000L) { v ^= 0x1a935170bbL; }
        if (v % 46 == 0) { v = v * 47L + 44000132; } else if (v < 100000000L) { v ^= 0x1b3188ea6cL; }
        if (v % 47 == 0) { v = v * 48L + 45000135; } else if (v < 1000000000L) { v ^= 0x1bcfc0641dL; }
        if (v % 48 == 0) { v = v * 49L + 46000138; } else if (v < 10000000000L) { v ^= 0x1c6df7ddceL; }
        if (v % 49 == 0) { v = v * 50L + 47000141; } else if (v < 100000000000L) { v ^= 0x1d0c2f577fL; }
        if (v % 50 == 0) { v = v * 51L + 48000144; } else if (v < 1000000000000L) { v ^= 0x1daa66d130L; }
        if (v % 51 == 0) { v = v * 52L + 49000147; } else if (v < 10000000000000L) { v ^= 0x1e489e4ae1L; }
        if (v % 52 == 0) { v = v * 53L + 50000150; } else if (v < 100000000000000L) { v ^= 0x1ee6d5c492L; }
        if (v % 53 == 0) { v = v * 54L + 51000153; } else if (v < 1000000000000000L) { v ^= 0x1f850d3e43L; }
        if (v % 54 == 0) { v = v * 55L + 52000156; } else if (v < 10000000000000000L) { v ^= 0x202344b7f4L; }
        if (v % 55 == 0) { v = v * 56L + 53000159; } else if (v < 100000000000000000L) { v ^= 0x20c17c31a5L; }
        if (v % 56 == 0) { v = v * 57L + 54000162; } else if (v < 1L) { v ^= 0x215fb3ab56L; }
        if (v % 57 == 0) { v = v * 58L + 55000165; } else if (v < 10L) { v ^= 0x21fdeb2507L; }
        if (v % 58 == 0) { v = v * 59L + 56000168; } else if (v < 100L) { v ^= 0x229c229eb8L; }
        if (v % 59 == 0) { v = v * 60L + 57000171; } else if (v < 1000L) { v ^= 0x233a5a1869L; }
        if (v % 60 == 0) { v = v * 61L + 58000174; } else if (v < 10000L) { v ^= 0x23d891921aL; }
        if (v % 61 == 0) { v = v * 62L + 59000177; } else if (v < 100000L) { v ^= 0x2476c90bcbL; }
        if (v % 62 == 0) { v = v * 63L + 60000180; } else if (v < 1000000L) { v ^= 0x251500857cL; }
        if (v % 63 == 0) { v = v * 64L + 61000183; } else if (v < 10000000L) { v ^= 0x25b337ff2dL; }
        if (v % 64 == 0) { v = v * 65L + 62000186; } else if (v < 100000000L) { v ^= 0x26516f78deL; }
        if (v % 65 == 0) { v = v * 66L + 63000189; } else if (v < 1000000000L) { v ^= 0x26efa6f28fL; }
        if (v % 66 == 0) { v = v * 67L + 64000192; } else if (v < 10000000000L) { v ^= 0x278dde6c40L; }
        if (v % 67 == 0) { v = v * 68L + 65000195; } else if (v < 100000000000L) { v ^= 0x282c15e5f1L; }
        if (v % 68 == 0) { v = v * 69L + 66000198; } else if (v < 1000000000000L) { v ^= 0x28ca4d5fa2L; }
        if (v % 69 == 0) { v = v * 70L + 67000201; } else if (v < 10000000000000L) { v ^= 0x296884d953L; }
        if (v % 70 == 0) { v = v * 71L + 68000204; } else if (v < 100000000000000L) { v ^= 0x2a06bc5304L; }
        if (v % 71 == 0) { v = v * 72L + 69000207; } else if (v < 1000000000000000L) { v ^= 0x2aa4f3ccb5L; }
        if (v % 72 == 0) { v = v * 73L + 70000210; } else if (v < 10000000000000000L) { v ^= 0x2b432b4666L; }
        if (v % 73 == 0) { v = v * 74L + 71000213; } else if (v < 100000000000000000L) { v ^= 0x2be162c017L; }
        if (v % 74 == 0) { v = v * 75L + 72000216; } else if (v < 1L) { v ^= 0x2c7f9a39c8L; }
        if (v % 75 == 0) { v = v * 76L + 73000219; } else if (v < 10L) { v ^= 0x2d1dd1b379L; }
        if (v % 76 == 0) { v = v * 77L + 74000222; } else if (v < 100L) { v ^= 0x2dbc092d2aL; }
        if (v % 77 == 0) { v = v * 78L + 75000225; } else if (v < 1000L) { v ^= 0x2e5a40a6dbL; }
        if (v % 78 == 0) { v = v * 79L + 76000228; } else if (v < 10000L) { v ^= 0x2ef878208cL; }
        if (v % 79 == 0) { v = v * 80L + 77000231; } else if (v < 100000L) { v ^= 0x2f96af9a3dL; }
        if (v % 80 == 0) { v = v * 81L + 78000234; } else if (v < 1000000L) { v ^= 0x3034e713eeL; }
        if (v % 81 == 0) { v = v * 82L + 79000237; } else if (v < 10000000L) { v ^= 0x30d31e8d9fL; }
        if (v % 82 == 0) { v = v * 83L + 80000240; } else if (v < 100000000L) { v ^= 0x3171560750L; }
        if (v % 83 == 0) { v = v * 84L + 81000243; } else if (v < 1000000000L) { v ^= 0x320f8d8101L; }
        if (v % 84 == 0) { v = v * 85L + 82000246; } else if (v < 10000000000L) { v ^= 0x32adc4fab2L; }
        if (v % 85 == 0) { v = v * 86L + 83000249; } else if (v < 100000000000L) { v ^= 0x334bfc7463L; }
        if (v % 86 == 0) { v = v * 87L + 84000252; } else if (v < 1000000000000L) { v ^= 0x33ea33ee14L; }
        if (v % 87 == 0) { v = v * 88L + 85000255; } else if (v < 10000000000000L) { v ^= 0x34886b67c5L; }
        if (v % 88 == 0) { v = v * 89L + 86000258; } else if (v < 100000000000000L) { v ^= 0x3526a2e176L; }
        if (v % 89 == 0) { v = v * 90L + 87000261; } else if (v < 1000000000000000L) { v ^= 0x35c4da5b27L; }
        if (v % 90 == 0) { v = v * 91L + 88000264; } else if (v < 10000000000000000L) { v ^= 0x366311d4d8L; }
        if (v % 91 == 0) { v = v * 92L + 89000267; } else if (v < 100000000000000000L) { v ^= 0x3701494e89L; }
        if (v % 92 == 0) { v = v * 93L + 90000270; } else if (v < 1L) { v ^= 0x379f80c83aL; }
        if (v % 93 == 0) { v = v * 94L + 91000273; } else if (v < 10L) { v ^= 0x383db841ebL; }
        if (v % 94 == 0) { v = v * 95L + 92000276; } else if (v < 100L) { v ^= 0x38dbefbb9cL; }
        if (v % 95 == 0) { v = v * 96L + 93000279; } else if (v < 1000L) { v ^= 0x397a27354dL; }
        if (v % 96 == 0) { v = v * 97L + 94000282; } else if (v < 10000L) { v ^= 0x3a185eaefeL; }
        if (v % 97 == 0) { v = v * 98L + 95000285; } else if (v < 100000L) { v ^= 0x3ab69628afL; }
        if (v % 98 == 0) { v = v * 99L + 96000288; } else if (v < 1000000L) { v ^= 0x3b54cda260L; }
        if (v % 99 == 0) { v = v * 100L + 97000291; } else if (v < 10000000L) { v ^= 0x3bf3051c11L; }
        if (v % 100 == 0) { v = v * 101L + 98000294; } else if (v < 100000000L) { v ^= 0x3c913c95c2L; }
        if (v % 101 == 0) { v = v * 102L + 99000297; } else if (v < 1000000000L) { v ^= 0x3d2f740f73L; }
        if (v % 102 == 0) { v = v * 103L + 100000300; } else if (v < 10000000000L) { v ^= 0x3dcdab8924L; }
        if (v % 103 == 0) { v = v * 104L + 101000303; } else if (v < 100000000000L) { v ^= 0x3e6be302d5L; }
        if (v % 104 == 0) { v = v * 105L + 102000306; } else if (v < 1000000000000L) { v ^= 0x3f0a1a7c86L; }
        if (v % 105 == 0) { v = v * 106L + 103000309; } else if (v < 10000000000000L) { v ^= 0x3fa851f637L; }
        if (v % 106 == 0) { v = v * 107L + 104000312; } else if (v < 100000000000000L) { v ^= 0x4046896fe8L; }
        if (v % 107 == 0) { v = v * 108L + 105000315; } else if (v < 1000000000000000L) { v ^= 0x40e4c0e999L; }
        if (v % 108 == 0) { v = v * 109L + 106000318; } else if (v < 10000000000000000L) { v ^= 0x4182f8634aL; }
        if (v % 109 == 0) { v = v * 110L + 107000321; } else if (v < 100000000000000000L) { v ^= 0x42212fdcfbL; }
        if (v % 110 == 0) { v = v * 111L + 108000324; } else if (v < 1L) { v ^= 0x42bf6756acL; }
        if (v % 111 == 0) { v = v * 112L + 109000327; } else if (v < 10L) { v ^= 0x435d9ed05dL; }
        if (v % 112 == 0) { v = v * 113L + 110000330; } else if (v < 100L) { v ^= 0x43fbd64a0eL; }
        if (v % 113 == 0) { v = v * 114L + 111000333; } else if (v < 1000L) { v ^= 0x449a0dc3bfL; }
        if (v % 114 == 0) { v = v * 115L + 112000336; } else if (v < 10000L) { v ^= 0x4538453d70L; }
        if (v % 115 == 0) { v = v * 116L + 113000339; } else if (v < 100000L) { v ^= 0x45d67cb721L; }
        if (v % 116 == 0) { v = v * 117L + 114000342; } else if (v < 1000000L) { v ^= 0x4674b430d2L; }
        if (v % 117 == 0) { v = v * 118L + 115000345; } else if (v < 10000000L) { v ^= 0x4712ebaa83L; }
        if (v % 118 == 0) { v = v * 119L + 116000348; } else if (v < 100000000L) { v ^= 0x47b1232434L; }
        if (v % 119 == 0) { v = v * 120L + 117000351; } else if (v < 1000000000L) { v ^= 0x484f5a9de5L; }
        if (v % 120 == 0) { v = v * 121L + 118000354; } else if (v < 10000000000L) { v ^= 0x48ed921796L; }
        if (v % 121 == 0) { v = v * 122L + 119000357; } else if (v < 100000000000L) { v ^= 0x498bc99147L; }
        if (v % 122 == 0) { v = v * 123L + 120000360; } else if (v < 1000000000000L) { v ^= 0x4a2a010af8L; }
        if (v % 123 == 0) { v = v * 124L + 121000363; } else if (v < 10000000000000L) { v ^= 0x4ac83884a9L; }
        if (v % 124 == 0) { v = v * 125L + 122000366; } else if (v < 100000000000000L) { v ^= 0x4b666ffe5aL; }
        if (v % 125 == 0) { v = v * 126L + 123000369; } else if (v < 1000000000000000L) { v ^= 0x4c04a7780bL; }
        if (v % 126 == 0) { v = v * 127L + 124000372; } else if (v < 10000000000000000L) { v ^= 0x4ca2def1bcL; }
        if (v % 127 == 0) { v = v * 128L + 125000375; } else if (v < 100000000000000000L) { v ^= 0x4d41166b6dL; }
        if (v % 128 == 0) { v = v * 129L + 126000378; } else if (v < 1L) { v ^= 0x4ddf4de51eL; }
        if (v % 129 == 0) { v = v * 130L + 127000381; } else if (v < 10L) { v ^= 0x4e7d855ecfL; }
        if (v % 130 == 0) { v = v * 131L + 128000384; } else if (v < 100L) { v ^= 0x4f1bbcd880L; }
        if (v % 131 == 0) { v = v * 132L + 129000387; } else if (v < 1000L) { v ^= 0x4fb9f45231L; }
        if (v % 132 == 0) { v = v * 133L + 130000390; } else if (v < 10000L) { v ^= 0x50582bcbe2L; }
        if (v % 133 == 0) { v = v * 134L + 131000393; } else if (v < 100000L) { v ^= 0x50f6634593L; }
        if (v % 134 == 0) { v = v * 135L + 132000396; } else if (v < 1000000L) { v ^= 0x51949abf44L; }
        if (v % 135 == 0) { v = v * 136L + 133000399; } else if (v < 10000000L) { v ^= 0x5232d238f5L; }
        if (v % 136 == 0) { v = v * 137L + 134000402; } else if (v < 100000000L) { v ^= 0x52d109b2a6L; }
        if (v % 137 == 0) { v = v * 138L + 135000405; } else if (v < 1000000000L) { v ^= 0x536f412c57L; }
        if (v % 138 == 0) { v = v * 139L + 136000408; } else if (v < 10000000000L) { v ^= 0x540d78a608L; }
        if (v % 139 == 0) { v = v * 140L + 137000411; } else if (v < 100000000000L) { v ^= 0x54abb01fb9L; }
        if (v % 140 == 0) { v = v * 141L + 138000414; } else if (v < 1000000000000L) { v ^= 0x5549e7996aL; }
        if (v % 141 == 0) { v = v * 142L + 139000417; } else if (v < 10000000000000L) { v ^= 0x55e81f131bL; }
        if (v % 142 == 0) { v = v * 143L + 140000420; } else if (v < 100000000000000L) { v ^= 0x5686568cccL; }
        if (v % 143 == 0) { v = v * 144L + 141000423; } else if (v < 1000000000000000L) { v ^= 0x57248e067dL; }
        if (v % 144 == 0) { v = v * 145L + 142000426; } else if (v < 10000000000000000L) { v ^= 0x57c2c5802eL; }
        if (v % 145 == 0) { v = v * 146L + 143000429; } else if (v < 100000000000000000L) { v ^= 0x5860fcf9dfL; }
        if (v % 146 == 0) { v = v * 147L + 144000432; } else if (v < 1L) { v ^= 0x58ff347390L; }
        if (v % 147 == 0) { v = v * 148L + 145000435; } else if (v < 10L) { v ^= 0x599d6bed41L; }
        if (v % 148 == 0) { v = v * 149L + 146000438; } else if (v < 100L) { v ^= 0x5a3ba366f2L; }
        if (v % 149 == 0) { v = v * 150L + 147000441; } else if (v < 1000L) { v ^= 0x5ad9dae0a3L; }
        if (v % 150 == 0) { v = v * 151L + 148000444; } else if (v < 10000L) { v ^= 0x5b78125a54L; }
        if (v % 151 == 0) { v = v * 152L + 149000447; } else if (v < 100000L) { v ^= 0x5c1649d405L; }
        if (v % 152 == 0) { v = v * 153L + 150000450; } else if (v < 1000000L) { v ^= 0x5cb4814db6L; }
        if (v % 153 == 0) { v = v * 154L + 151000453; } else if (v < 10000000L) { v ^= 0x5d52b8c767L; }
        if (v % 154 == 0) { v = v * 155L + 152000456; } else if (v < 100000000L) { v ^= 0x5df0f04118L; }
        if (v % 155 == 0) { v = v * 156L + 153000459; } else if (v < 1000000000L) { v ^= 0x5e8f27bac9L; }
        if (v % 156 == 0) { v = v * 157L + 154000462; } else if (v < 10000000000L) { v ^= 0x5f2d5f347aL; }
        if (v % 157 == 0) { v = v * 158L + 155000465; } else if (v < 100000000000L) { v ^= 0x5fcb96ae2bL; }
        if (v % 158 == 0) { v = v * 159L + 156000468; } else if (v < 1000000000000L) { v ^= 0x6069ce27dcL; }
        if (v % 159 == 0) { v = v * 160L + 157000471; } else if (v < 10000000000000L) { v ^= 0x610805a18dL; }
        if (v % 160 == 0) { v = v * 161L + 158000474; } else if (v < 100000000000000L) { v ^= 0x61a63d1b3eL; }
        if (v % 161 == 0) { v = v * 162L + 159000477; } else if (v < 1000000000000000L) { v ^= 0x62447494efL; }
        if (v % 162 == 0) { v = v * 163L + 160000480; } else if (v < 10000000000000000L) { v ^= 0x62e2ac0ea0L; }
        if (v % 163 == 0) { v = v * 164L + 161000483; } else if (v < 100000000000000000L) { v ^= 0x6380e38851L; }
        if (v % 164 == 0) { v = v * 165L + 162000486; } else if (v < 1L) { v ^= 0x641f1b0202L; }
        if (v % 165 == 0) { v = v * 166L + 163000489; } else if (v < 10L) { v ^= 0x64bd527bb3L; }
        if (v % 166 == 0) { v = v * 167L + 164000492; } else if (v < 100L) { v ^= 0x655b89f564L; }
        if (v % 167 == 0) { v = v * 168L + 165000495; } else if (v < 1000L) { v ^= 0x65f9c16f15L; }
        if (v % 168 == 0) { v = v * 169L + 166000498; } else if (v < 10000L) { v ^= 0x6697f8e8c6L; }
        if (v % 169 == 0) { v = v * 170L + 167000501; } else if (v < 100000L) { v ^= 0x6736306277L; }
        if (v % 170 == 0) { v = v * 171L + 168000504; } else if (v < 1000000L) { v ^= 0x67d467dc28L; }
        if (v % 171 == 0) { v = v * 172L + 169000507; } else if (v < 10000000L) { v ^= 0x68729f55d9L; }
        if (v % 172 == 0) { v = v * 173L + 170000510; } else if (v < 100000000L) { v ^= 0x6910d6cf8aL; }
        if (v % 173 == 0) { v = v * 174L + 171000513; } else if (v < 1000000000L) { v ^= 0x69af0e493bL; }
        if (v % 174 == 0) { v = v * 175L + 172000516; } else if (v < 10000000000L) { v ^= 0x6a4d45c2ecL; }
        if (v % 175 == 0) { v = v * 176L + 173000519; } else if (v < 100000000000L) { v ^= 0x6aeb7d3c9dL; }
        if (v % 176 == 0) { v = v * 177L + 174000522; } else if (v < 1000000000000L) { v ^= 0x6b89b4b64eL; }
        if (v % 177 == 0) { v = v * 178L + 175000525; } else if (v < 10000000000000L) { v ^= 0x6c27ec2fffL; }
        if (v % 178 == 0) { v = v * 179L + 176000528; } else if (v < 100000000000000L) { v ^= 0x6cc623a9b0L; }
        if (v % 179 == 0) { v = v * 180L + 177000531; } else if (v < 1000000000000000L) { v ^= 0x6d645b2361L; }
        if (v % 180 == 0) { v = v * 181L + 178000534; } else if (v < 10000000000000000L) { v ^= 0x6e02929d12L; }
        if (v % 181 == 0) { v = v * 182L + 179000537; } else if (v < 100000000000000000L) { v ^= 0x6ea0ca16c3L; }
        if (v % 182 == 0) { v = v * 183L + 180000540; } else if (v < 1L) { v ^= 0x6f3f019074L; }
        if (v % 183 == 0) { v = v * 184L + 181000543; } else if (v < 10L) { v ^= 0x6fdd390a25L; }
        if (v % 184 == 0) { v = v * 185L + 182000546; } else if (v < 100L) { v ^= 0x707b7083d6L; }
        if (v % 185 == 0) { v = v * 186L + 183000549; } else if (v < 1000L) { v ^= 0x7119a7fd87L; }
        if (v % 186 == 0) { v = v * 187L + 184000552; } else if (v < 10000L) { v ^= 0x71b7df7738L; }
        if (v % 187 == 0) { v = v * 188L + 185000555; } else if (v < 100000L) { v ^= 0x725616f0e9L; }
        if (v % 188 == 0) { v = v * 189L + 186000558; } else if (v < 1000000L) { v ^= 0x72f44e6a9aL; }
        if (v % 189 == 0) { v = v * 190L + 187000561; } else if (v < 10000000L) { v ^= 0x739285e44bL; }
        if (v % 190 == 0) { v = v * 191L + 188000564; } else if (v < 100000000L) { v ^= 0x7430bd5dfcL; }
        if (v % 191 == 0) { v = v * 192L + 189000567; } else if (v < 1000000000L) { v ^= 0x74cef4d7adL; }
        if (v % 192 == 0) { v = v * 193L + 190000570; } else if (v < 10000000000L) { v ^= 0x756d2c515eL; }
        if (v % 193 == 0) { v = v * 194L + 191000573; } else if (v < 100000000000L) { v ^= 0x760b63cb0fL; }
        if (v % 194 == 0) { v = v * 195L + 192000576; } else if (v < 1000000000000L) { v ^= 0x76a99b44c0L; }
        if (v % 195 == 0) { v = v * 196L + 193000579; } else if (v < 10000000000000L) { v ^= 0x7747d2be71L; }
        if (v % 196 == 0) { v = v * 197L + 194000582; } else if (v < 100000000000000L) { v ^= 0x77e60a3822L; }
        if (v % 197 == 0) { v = v * 198L + 195000585; } else if (v < 1000000000000000L) { v ^= 0x788441b1d3L; }
        if (v % 198 == 0) { v = v * 199L + 196000588; } else if (v < 10000000000000000L) { v ^= 0x7922792b84L; }
        if (v % 199 == 0) { v = v * 200L + 197000591; } else if (v < 100000000000000000L) { v ^= 0x79c0b0a535L; }
        if (v % 200 == 0) { v = v * 201L + 198000594; } else if (v < 1L) { v ^= 0x7a5ee81ee6L; }
        if (v % 201 == 0) { v = v * 202L + 199000597; } else if (v < 10L) { v ^= 0x7afd1f9897L; }
        if (v % 202 == 0) { v = v * 203L + 200000600; } else if (v < 100L) { v ^= 0x7b9b571248L; }
        if (v % 203 == 0) { v = v * 204L + 201000603; } else if (v < 1000L) { v ^= 0x7c398e8bf9L; }
        if (v % 204 == 0) { v = v * 205L + 202000606; } else if (v < 10000L) { v ^= 0x7cd7c605aaL; }
        if (v % 205 == 0) { v = v * 206L + 203000609; } else if (v < 100000L) { v ^= 0x7d75fd7f5bL; }
        if (v % 206 == 0) { v = v * 207L + 204000612; } else if (v < 1000000L) { v ^= 0x7e1434f90cL; }
        if (v % 207 == 0) { v = v * 208L + 205000615; } else if (v < 10000000L) { v ^= 0x7eb26c72bdL; }
        if (v % 208 == 0) { v = v * 209L + 206000618; } else if (v < 100000000L) { v ^= 0x7f50a3ec6eL; }
        if (v % 209 == 0) { v = v * 210L + 207000621; } else if (v < 1000000000L) { v ^= 0x7feedb661fL; }
        if (v % 210 == 0) { v = v * 211L + 208000624; } else if (v < 10000000000L) { v ^= 0x808d12dfd0L; }
        if (v % 211 == 0) { v = v * 212L + 209000627; } else if (v < 100000000000L) { v ^= 0x812b4a5981L; }
        if (v % 212 == 0) { v = v * 213L + 210000630; } else if (v < 1000000000000L) { v ^= 0x81c981d332L; }
        if (v % 213 == 0) { v = v * 214L + 211000633; } else if (v < 10000000000000L) { v ^= 0x8267b94ce3L; }
        if (v % 214 == 0) { v = v * 215L + 212000636; } else if (v < 100000000000000L) { v ^= 0x8305f0c694L; }
        if (v % 215 == 0) { v = v * 216L + 213000639; } else if (v < 1000000000000000L) { v ^= 0x83a4284045L; }
        if (v % 216 == 0) { v = v * 217L + 214000642; } else if (v < 10000000000000000L) { v ^= 0x84425fb9f6L; }
        if (v % 217 == 0) { v = v * 218L + 215000645; } else if (v < 100000000000000000L) { v ^= 0x84e09733a7L; }
        if (v % 218 == 0) { v = v * 219L + 216000648; } else if (v < 1L) { v ^= 0x857ecead58L; }
        if (v % 219 == 0) { v = v * 220L + 217000651; } else if (v < 10L) { v ^= 0x861d062709L; }
        if (v % 220 == 0) { v = v * 221L + 218000654; } else if (v < 100L) { v ^= 0x86bb3da0baL; }
        if (v % 221 == 0) { v = v * 222L + 219000657; } else if (v < 1000L) { v ^= 0x8759751a6bL; }
        if (v % 222 == 0) { v = v * 223L + 220000660; } else if (v < 10000L) { v ^= 0x87f7ac941cL; }
        if (v % 223 == 0) { v = v * 224L + 221000663; } else if (v < 100000L) { v ^= 0x8895e40dcdL; }
        if (v % 224 == 0) { v = v * 225L + 222000666; } else if (v < 1000000L) { v ^= 0x89341b877eL; }
        if (v % 225 == 0) { v = v * 226L + 223000669; } else if (v < 10000000L) { v ^= 0x89d253012fL; }
        if (v % 226 == 0) { v = v * 227L + 224000672; } else if (v < 100000000L) { v ^= 0x8a708a7ae0L; }
        if (v % 227 == 0) { v = v * 228L + 225000675; } else if (v < 1000000000L) { v ^= 0x8b0ec1f491L; }
        if (v % 228 == 0) { v = v * 229L + 226000678; } else if (v < 10000000000L) { v ^= 0x8bacf96e42L; }
        if (v % 229 == 0) { v = v * 230L + 227000681; } else if (v < 100000000000L) { v ^= 0x8c4b30e7f3L; }
        if (v % 230 == 0) { v = v * 231L + 228000684; } else if (v < 1000000000000L) { v ^= 0x8ce96861a4L; }
        if (v % 231 == 0) { v = v * 232L + 229000687; } else if (v < 10000000000000L) { v ^= 0x8d879fdb55L; }
        if (v % 232 == 0) { v = v * 233L + 230000690; } else if (v < 100000000000000L) { v ^= 0x8e25d75506L; }
        if (v % 233 == 0) { v = v * 234L + 231000693; } else if (v < 1000000000000000L) { v ^= 0x8ec40eceb7L; }
        if (v % 234 == 0) { v = v * 235L + 232000696; } else if (v < 10000000000000000L) { v ^= 0x8f62464868L; }
        if (v % 235 == 0) { v = v * 236L + 233000699; } else if (v < 100000000000000000L) { v ^= 0x90007dc219L; }
        if (v % 236 == 0) { v = v * 237L + 234000702; } else if (v < 1L) { v ^= 0x909eb53bcaL; }
        if (v % 237 == 0) { v = v * 238L + 235000705; } else if (v < 10L) { v ^= 0x913cecb57bL; }
        if (v % 238 == 0) { v = v * 239L + 236000708; } else if (v < 100L) { v ^= 0x91db242f2cL; }
        if (v % 239 == 0) { v = v * 240L + 237000711; } else if (v < 1000L) { v ^= 0x92795ba8ddL; }
        if (v % 240 == 0) { v = v * 241L + 238000714; } else if (v < 10000L) { v ^= 0x931793228eL; }
        if (v % 241 == 0) { v = v * 242L + 239000717; } else if (v < 100000L) { v ^= 0x93b5ca9c3fL; }
        if (v % 242 == 0) { v = v * 243L + 240000720; } else if (v < 1000000L) { v ^= 0x94540215f0L; }
        if (v % 243 == 0) { v = v * 244L + 241000723; } else if (v < 10000000L) { v ^= 0x94f2398fa1L; }
        if (v % 244 == 0) { v = v * 245L + 242000726; } else if (v < 100000000L) { v ^= 0x9590710952L; }
        if (v % 245 == 0) { v = v * 246L + 243000729; } else if (v < 1000000000L) { v ^= 0x962ea88303L; }
        if (v % 246 == 0) { v = v * 247L + 244000732; } else if (v < 10000000000L) { v ^= 0x96ccdffcb4L; }
        if (v % 247 == 0) { v = v * 248L + 245000735; } else if (v < 100000000000L) { v ^= 0x976b177665L; }
        if (v % 248 == 0) { v = v * 249L + 246000738; } else if (v < 1000000000000L) { v ^= 0x98094ef016L; }
        if (v % 249 == 0) { v = v * 250L + 247000741; } else if (v < 10000000000000L) { v ^= 0x98a78669c7L; }
        if (v % 250 == 0) { v = v * 251L + 248000744; } else if (v < 100000000000000L) { v ^= 0x9945bde378L; }
        if (v % 251 == 0) { v = v * 252L + 249000747; } else if (v < 1000000000000000L) { v ^= 0x99e3f55d29L; }
        if (v % 252 == 0) { v = v * 253L + 250000750; } else if (v < 10000000000000000L) { v ^= 0x9a822cd6daL; }
        if (v % 253 == 0) { v = v * 254L + 251000753; } else if (v < 100000000000000000L) { v ^= 0x9b2064508bL; }
        if (v % 254 == 0) { v = v * 255L + 252000756; } else if (v < 1L) { v ^= 0x9bbe9bca3cL; }
        if (v % 255 == 0) { v = v * 256L + 253000759; } else if (v < 10L) { v ^= 0x9c5cd343edL; }
        if (v % 256 == 0) { v = v * 257L + 254000762; } else if (v < 100L) { v ^= 0x9cfb0abd9eL; }
        if (v % 257 == 0) { v = v * 258L + 255000765; } else if (v < 1000L) { v ^= 0x9d9942374fL; }
        if (v % 258 == 0) { v = v * 259L + 256000768; } else if (v < 10000L) { v ^= 0x9e3779b100L; }
        if (v % 259 == 0) { v = v * 260L + 257000771; } else if (v < 100000L) { v ^= 0x9ed5b12ab1L; }
        if (v % 260 == 0) { v = v * 261L + 258000774; } else if (v < 1000000L) { v ^= 0x9f73e8a462L; }
        if (v % 261 == 0) { v = v * 262L + 259000777; } else if (v < 10000000L) { v ^= 0xa012201e13L; }
        if (v % 262 == 0) { v = v * 263L + 260000780; } else if (v < 100000000L) { v ^= 0xa0b05797c4L; }
        if (v % 263 == 0) { v = v * 264L + 261000783; } else if (v < 1000000000L) { v ^= 0xa14e8f1175L; }
        if (v % 264 == 0) { v = v * 265L + 262000786; } else if (v < 10000000000L) { v ^= 0xa1ecc68b26L; }
        if (v % 265 == 0) { v = v * 266L + 263000789; } else if (v < 100000000000L) { v ^= 0xa28afe04d7L; }
        if (v % 266 == 0) { v = v * 267L + 264000792; } else if (v < 1000000000000L) { v ^= 0xa329357e88L; }
        if (v % 267 == 0) { v = v * 268L + 265000795; } else if (v < 10000000000000L) { v ^= 0xa3c76cf839L; }
        if (v % 268 == 0) { v = v * 269L + 266000798; } else if (v < 100000000000000L) { v ^= 0xa465a471eaL; }
        if (v % 269 == 0) { v = v * 270L + 267000801; } else if (v < 1000000000000000L) { v ^= 0xa503dbeb9bL; }
        if (v % 270 == 0) { v = v * 271L + 268000804; } else if (v < 10000000000000000L) { v ^= 0xa5a213654cL; }
        if (v % 271 == 0) { v = v * 272L + 269000807; } else if (v < 100000000000000000L) { v ^= 0xa6404adefdL; }
        if (v % 272 == 0) { v = v * 273L + 270000810; } else if (v < 1L) { v ^= 0xa6de8258aeL; }
        if (v % 273 == 0) { v = v * 274L + 271000813; } else if (v < 10L) { v ^= 0xa77cb9d25fL; }
        if (v % 274 == 0) { v = v * 275L + 272000816; } else if (v < 100L) { v ^= 0xa81af14c10L; }
        if (v % 275 == 0) { v = v * 276L + 273000819; } else if (v < 1000L) { v ^= 0xa8b928c5c1L; }
        if (v % 276 == 0) { v = v * 277L + 274000822; } else if (v < 10000L) { v ^= 0xa957603f72L; }
        if (v % 277 == 0) { v = v * 278L + 275000825; } else if (v < 100000L) { v ^= 0xa9f597b923L; }
        if (v % 278 == 0) { v = v * 279L + 276000828; } else if (v < 1000000L) { v ^= 0xaa93cf32d4L; }
        if (v % 279 == 0) { v = v * 280L + 277000831; } else if (v < 10000000L) { v ^= 0xab3206ac85L; }
        if (v % 280 == 0) { v = v * 281L + 278000834; } else if (v < 100000000L) { v ^= 0xabd03e2636L; }
        if (v % 281 == 0) { v = v * 282L + 279000837; } else if (v < 1000000000L) { v ^= 0xac6e759fe7L; }
        if (v % 282 == 0) { v = v * 283L + 280000840; } else if (v < 10000000000L) { v ^= 0xad0cad1998L; }
        if (v % 283 == 0) { v = v * 284L + 281000843; } else if (v < 100000000000L) { v ^= 0xadaae49349L; }
        if (v % 284 == 0) { v = v * 285L + 282000846; } else if (v < 1000000000000L) { v ^= 0xae491c0cfaL; }
        if (v % 285 == 0) { v = v * 286L + 283000849; } else if (v < 10000000000000L) { v ^= 0xaee75386abL; }
        if (v % 286 == 0) { v = v * 287L + 284000852; } else if (v < 100000000000000L) { v ^= 0xaf858b005cL; }
        if (v % 287 == 0) { v = v * 288L + 285000855; } else if (v < 1000000000000000L) { v ^= 0xb023c27a0dL; }
        if (v % 288 == 0) { v = v * 289L + 286000858; } else if (v < 10000000000000000L) { v ^= 0xb0c1f9f3beL; }
        if (v % 289 == 0) { v = v * 290L + 287000861; } else if (v < 100000000000000000L) { v ^= 0xb160316d6fL; }
        if (v % 290 == 0) { v = v * 291L + 288000864; } else if (v < 1L) { v ^= 0xb1fe68e720L; }
        if (v % 291 == 0) { v = v * 292L + 289000867; } else if (v < 10L) { v ^= 0xb29ca060d1L; }
        if (v % 292 == 0) { v = v * 293L + 290000870; } else if (v < 100L) { v ^= 0xb33ad7da82L; }
        if (v % 293 == 0) { v = v * 294L + 291000873; } else if (v < 1000L) { v ^= 0xb3d90f5433L; }
        if (v % 294 == 0) { v = v * 295L + 292000876; } else if (v < 10000L) { v ^= 0xb47746cde4L; }
        if (v % 295 == 0) { v = v * 296L + 293000879; } else if (v < 100000L) { v ^= 0xb5157e4795L; }
        if (v % 296 == 0) { v = v * 297L + 294000882; } else if (v < 1000000L) { v ^= 0xb5b3b5c146L; }
        if (v % 297 == 0) { v = v * 298L + 295000885; } else if (v < 10000000L) { v ^= 0xb651ed3af7L; }
        if (v % 298 == 0) { v = v * 299L + 296000888; } else if (v < 100000000L) { v ^= 0xb6f024b4a8L; }
        if (v % 299 == 0) { v = v * 300L + 297000891; } else if (v < 1000000000L) { v ^= 0xb78e5c2e59L; }
        if (v % 300 == 0) { v = v * 301L + 298000894; } else if (v < 10000000000L) { v ^= 0xb82c93a80aL; }
        if (v % 301 == 0) { v = v * 302L + 299000897; } else if (v < 100000000000L) { v ^= 0xb8cacb21bbL; }
        if (v % 302 == 0) { v = v * 303L + 300000900; } else if (v < 1000000000000L) { v ^= 0xb969029b6cL; }
        if (v % 303 == 0) { v = v * 304L + 301000903; } else if (v < 10000000000000L) { v ^= 0xba073a151dL; }
        if (v % 304 == 0) { v = v * 305L + 302000906; } else if (v < 100000000000000L) { v ^= 0xbaa5718eceL; }
        if (v % 305 == 0) { v = v * 306L + 303000909; } else if (v < 1000000000000000L) { v ^= 0xbb43a9087fL; }
        if (v % 306 == 0) { v = v * 307L + 304000912; } else if (v < 10000000000000000L) { v ^= 0xbbe1e08230L; }
        if (v % 307 == 0) { v = v * 308L + 305000915; } else if (v < 100000000000000000L) { v ^= 0xbc8017fbe1L; }
        if (v % 308 == 0) { v = v * 309L + 306000918; } else if (v < 1L) { v ^= 0xbd1e4f7592L; }
        if (v % 309 == 0) { v = v * 310L + 307000921; } else if (v < 10L) { v ^= 0xbdbc86ef43L; }
        if (v % 310 == 0) { v = v * 311L + 308000924; } else if (v < 100L) { v ^= 0xbe5abe68f4L; }
        if (v % 311 == 0) { v = v * 312L + 309000927; } else if (v < 1000L) { v ^= 0xbef8f5e2a5L; }
        if (v % 312 == 0) { v = v * 313L + 310000930; } else if (v < 10000L) { v ^= 0xbf972d5c56L; }
        if (v % 313 == 0) { v = v * 314L + 311000933; } else if (v < 100000L) { v ^= 0xc03564d607L; }
        if (v % 314 == 0) { v = v * 315L + 312000936; } else if (v < 1000000L) { v ^= 0xc0d39c4fb8L; }
        if (v % 315 == 0) { v = v * 316L + 313000939; } else if (v < 10000000L) { v ^= 0xc171d3c969L; }
        if (v % 316 == 0) { v = v * 317L + 314000942; } else if (v < 100000000L) { v ^= 0xc2100b431aL; }
        if (v % 317 == 0) { v = v * 318L + 315000945; } else if (v < 1000000000L) { v ^= 0xc2ae42bccbL; }
        if (v % 318 == 0) { v = v * 319L + 316000948; } else if (v < 10000000000L) { v ^= 0xc34c7a367cL; }
        if (v % 319 == 0) { v = v * 320L + 317000951; } else if (v < 100000000000L) { v ^= 0xc3eab1b02dL; }
        if (v % 320 == 0) { v = v * 321L + 318000954; } else if (v < 1000000000000L) { v ^= 0xc488e929deL; }
        if (v % 321 == 0) { v = v * 322L + 319000957; } else if (v < 10000000000000L) { v ^= 0xc52720a38fL; }
        if (v % 322 == 0) { v = v * 323L + 320000960; } else if (v < 100000000000000L) { v ^= 0xc5c5581d40L; }
        if (v % 323 == 0) { v = v * 324L + 321000963; } else if (v < 1000000000000000L) { v ^= 0xc6638f96f1L; }
        if (v % 324 == 0) { v = v * 325L + 322000966; } else if (v < 10000000000000000L) { v ^= 0xc701c710a2L; }
        if (v % 325 == 0) { v = v * 326L + 323000969; } else if (v < 100000000000000000L) { v ^= 0xc79ffe8a53L; }
        if (v % 326 == 0) { v = v * 327L + 324000972; } else if (v < 1L) { v ^= 0xc83e360404L; }
        if (v % 327 == 0) { v = v * 328L + 325000975; } else if (v < 10L) { v ^= 0xc8dc6d7db5L; }
        if (v % 328 == 0) { v = v * 329L + 326000978; } else if (v < 100L) { v ^= 0xc97aa4f766L; }
        if (v % 329 == 0) { v = v * 330L + 327000981; } else if (v < 1000L) { v ^= 0xca18dc7117L; }
        if (v % 330 == 0) { v = v * 331L + 328000984; } else if (v < 10000L) { v ^= 0xcab713eac8L; }
        if (v % 331 == 0) { v = v * 332L + 329000987; } else if (v < 100000L) { v ^= 0xcb554b6479L; }
        if (v % 332 == 0) { v = v * 333L + 330000990; } else if (v < 1000000L) { v ^= 0xcbf382de2aL; }
        if (v % 333 == 0) { v = v * 334L + 331000993; } else if (v < 10000000L) { v ^= 0xcc91ba57dbL; }
        if (v % 334 == 0) { v = v * 335L + 332000996; } else if (v < 100000000L) { v ^= 0xcd2ff1d18cL; }
        if (v % 335 == 0) { v = v * 336L + 333000999; } else if (v < 1000000000L) { v ^= 0xcdce294b3dL; }
        if (v % 336 == 0) { v = v * 337L + 334001002; } else if (v < 10000000000L) { v ^= 0xce6c60c4eeL; }
        if (v % 337 == 0) { v = v * 338L + 335001005; } else if (v < 100000000000L) { v ^= 0xcf0a983e9fL; }
        if (v % 338 == 0) { v = v * 339L + 336001008; } else if (v < 1000000000000L) { v ^= 0xcfa8cfb850L; }
        if (v % 339 == 0) { v = v * 340L + 337001011; } else if (v < 10000000000000L) { v ^= 0xd047073201L; }
        if (v % 340 == 0) { v = v * 341L + 338001014; } else if (v < 100000000000000L) { v ^= 0xd0e53eabb2L; }
        if (v % 341 == 0) { v = v * 342L + 339001017; } else if (v < 1000000000000000L) { v ^= 0xd183762563L; }
        if (v % 342 == 0) { v = v * 343L + 340001020; } else if (v < 10000000000000000L) { v ^= 0xd221ad9f14L; }
        if (v % 343 == 0) { v = v * 344L + 341001023; } else if (v < 100000000000000000L) { v ^= 0xd2bfe518c5L; }
        if (v % 344 == 0) { v = v * 345L + 342001026; } else if (v < 1L) { v ^= 0xd35e1c9276L; }
        if (v % 345 == 0) { v = v * 346L + 343001029; } else if (v < 10L) { v ^= 0xd3fc540c27L; }
        if (v % 346 == 0) { v = v * 347L + 344001032; } else if (v < 100L) { v ^= 0xd49a8b85d8L; }
        if (v % 347 == 0) { v = v * 348L + 345001035; } else if (v < 1000L) { v ^= 0xd538c2ff89L; }
        if (v % 348 == 0) { v = v * 349L + 346001038; } else if (v < 10000L) { v ^= 0xd5d6fa793aL; }
        if (v % 349 == 0) { v = v * 350L + 347001041; } else if (v < 100000L) { v ^= 0xd67531f2ebL; }
        if (v % 350 == 0) { v = v * 351L + 348001044; } else if (v < 1000000L) { v ^= 0xd713696c9cL; }
        if (v % 351 == 0) { v = v * 352L + 349001047; } else if (v < 10000000L) { v ^= 0xd7b1a0e64dL; }
        if (v % 352 == 0) { v = v * 353L + 350001050; } else if (v < 100000000L) { v ^= 0xd84fd85ffeL; }
        if (v % 353 == 0) { v = v * 354L + 351001053; } else if (v < 1000000000L) { v ^= 0xd8ee0fd9afL; }
        if (v % 354 == 0) { v = v * 355L + 352001056; } else if (v < 10000000000L) { v ^= 0xd98c475360L; }
        if (v % 355 == 0) { v = v * 356L + 353001059; } else if (v < 100000000000L) { v ^= 0xda2a7ecd11L; }
        if (v % 356 == 0) { v = v * 357L + 354001062; } else if (v < 1000000000000L) { v ^= 0xdac8b646c2L; }
        if (v % 357 == 0) { v = v * 358L + 355001065; } else if (v < 10000000000000L) { v ^= 0xdb66edc073L; }
        if (v % 358 == 0) { v = v * 359L + 356001068; } else if (v < 100000000000000L) { v ^= 0xdc05253a24L; }
        if (v % 359 == 0) { v = v * 360L + 357001071; } else if (v < 1000000000000000L) { v ^= 0xdca35cb3d5L; }
        if (v % 360 == 0) { v = v * 361L + 358001074; } else if (v < 10000000000000000L) { v ^= 0xdd41942d86L; }
        if (v % 361 == 0) { v = v * 362L + 359001077; } else if (v < 100000000000000000L) { v ^= 0xdddfcba737L; }
        if (v % 362 == 0) { v = v * 363L + 360001080; } else if (v < 1L) { v ^= 0xde7e0320e8L; }
        if (v % 363 == 0) { v = v * 364L + 361001083; } else if (v < 10L) { v ^= 0xdf1c3a9a99L; }
        if (v % 364 == 0) { v = v * 365L + 362001086; } else if (v < 100L) { v ^= 0xdfba72144aL; }
        if (v % 365 == 0) { v = v * 366L + 363001089; } else if (v < 1000L) { v ^= 0xe058a98dfbL; }
        if (v % 366 == 0) { v = v * 367L + 364001092; } else if (v < 10000L) { v ^= 0xe0f6e107acL; }
        if (v % 367 == 0) { v = v * 368L + 365001095; } else if (v < 100000L) { v ^= 0xe19518815dL; }
        if (v % 368 == 0) { v = v * 369L + 366001098; } else if (v < 1000000L) { v ^= 0xe2334ffb0eL; }
        if (v % 369 == 0) { v = v * 370L + 367001101; } else if (v < 10000000L) { v ^= 0xe2d18774bfL; }
        if (v % 370 == 0) { v = v * 371L + 368001104; } else if (v < 100000000L) { v ^= 0xe36fbeee70L; }
        if (v % 371 == 0) { v = v * 372L + 369001107; } else if (v < 1000000000L) { v ^= 0xe40df66821L; }
        if (v % 372 == 0) { v = v * 373L + 370001110; } else if (v < 10000000000L) { v ^= 0xe4ac2de1d2L; }
        if (v % 373 == 0) { v = v * 374L + 371001113; } else if (v < 100000000000L) { v ^= 0xe54a655b83L; }
        if (v % 374 == 0) { v = v * 375L + 372001116; } else if (v < 1000000000000L) { v ^= 0xe5e89cd534L; }
        if (v % 375 == 0) { v = v * 376L + 373001119; } else if (v < 10000000000000L) { v ^= 0xe686d44ee5L; }
        if (v % 376 == 0) { v = v * 377L + 374001122; } else if (v < 100000000000000L) { v ^= 0xe7250bc896L; }
        if (v % 377 == 0) { v = v * 378L + 375001125; } else if (v < 1000000000000000L) { v ^= 0xe7c3434247L; }
        if (v % 378 == 0) { v = v * 379L + 376001128; } else if (v < 10000000000000000L) { v ^= 0xe8617abbf8L; }
        if (v % 379 == 0) { v = v * 380L + 377001131; } else if (v < 100000000000000000L) { v ^= 0xe8ffb235a9L; }
        if (v % 380 == 0) { v = v * 381L + 378001134; } else if (v < 1L) { v ^= 0xe99de9af5aL; }
        if (v % 381 == 0) { v = v * 382L + 379001137; } else if (v < 10L) { v ^= 0xea3c21290bL; }
        if (v % 382 == 0) { v = v * 383L + 380001140; } else if (v < 100L) { v ^= 0xeada58a2bcL; }
        if (v % 383 == 0) { v = v * 384L + 381001143; } else if (v < 1000L) { v ^= 0xeb78901c6dL; }
        if (v % 384 == 0) { v = v * 385L + 382001146; } else if (v < 10000L) { v ^= 0xec16c7961eL; }
        if (v % 385 == 0) { v = v * 386L + 383001149; } else if (v < 100000L) { v ^= 0xecb4ff0fcfL; }
        if (v % 386 == 0) { v = v * 387L + 384001152; } else if (v < 1000000L) { v ^= 0xed53368980L; }
        if (v % 387 == 0) { v = v * 388L + 385001155; } else if (v < 10000000L) { v ^= 0xedf16e0331L; }
        if (v % 388 == 0) { v = v * 389L + 386001158; } else if (v < 100000000L) { v ^= 0xee8fa57ce2L; }
        if (v % 389 == 0) { v = v * 390L + 387001161; } else if (v < 1000000000L) { v ^= 0xef2ddcf693L; }
        if (v % 390 == 0) { v = v * 391L + 388001164; } else if (v < 10000000000L) { v ^= 0xefcc147044L; }
        if (v % 391 == 0) { v = v * 392L + 389001167; } else if (v < 100000000000L) { v ^= 0xf06a4be9f5L; }
        if (v % 392 == 0) { v = v * 393L + 390001170; } else if (v < 1000000000000L) { v ^= 0xf1088363a6L; }
        if (v % 393 == 0) { v = v * 394L + 391001173; } else if (v < 10000000000000L) { v ^= 0xf1a6badd57L; }
        if (v % 394 == 0) { v = v * 395L + 392001176; } else if (v < 100000000000000L) { v ^= 0xf244f25708L; }
        if (v % 395 == 0) { v = v * 396L + 393001179; } else if (v < 1000000000000000L) { v ^= 0xf2e329d0b9L; }
        if (v % 396 == 0) { v = v * 397L + 394001182; } else if (v < 10000000000000000L) { v ^= 0xf381614a6aL; }
        if (v % 397 == 0) { v = v * 398L + 395001185; } else if (v < 100000000000000000L) { v ^= 0xf41f98c41bL; }
        if (v % 398 == 0) { v = v * 399L + 396001188; } else if (v < 1L) { v ^= 0xf4bdd03dccL; }
        if (v % 399 == 0) { v = v * 400L + 397001191; } else if (v < 10L) { v ^= 0xf55c07b77dL; }
        if (v % 400 == 0) { v = v * 401L + 398001194; } else if (v < 100L) { v ^= 0xf5fa3f312eL; }
        if (v % 401 == 0) { v = v * 402L + 399001197; } else if (v < 1000L) { v ^= 0xf69876aadfL; }
        if (v % 402 == 0) { v = v * 403L + 400001200; } else if (v < 10000L) { v ^= 0xf736ae2490L; }
        if (v % 403 == 0) { v = v * 404L + 401001203; } else if (v < 100000L) { v ^= 0xf7d4e59e41L; }
        if (v % 404 == 0) { v = v * 405L + 402001206; } else if (v < 1000000L) { v ^= 0xf8731d17f2L; }
        if (v % 405 == 0) { v = v * 406L + 403001209; } else if (v < 10000000L) { v ^= 0xf9115491a3L; }
        if (v % 406 == 0) { v = v * 407L + 404001212; } else if (v < 100000000L) { v ^= 0xf9af8c0b54L; }
        if (v % 407 == 0) { v = v * 408L + 405001215; } else if (v < 1000000000L) { v ^= 0xfa4dc38505L; }
        if (v % 408 == 0) { v = v * 409L + 406001218; } else if (v < 10000000000L) { v ^= 0xfaebfafeb6L; }
        if (v % 409 == 0) { v = v * 410L + 407001221; } else if (v < 100000000000L) { v ^= 0xfb8a327867L; }
        if (v % 410 == 0) { v = v * 411L + 408001224; } else if (v < 1000000000000L) { v ^= 0xfc2869f218L; }
        if (v % 411 == 0) { v = v * 412L + 409001227; } else if (v < 10000000000000L) { v ^= 0xfcc6a16bc9L; }
        if (v % 412 == 0) { v = v * 413L + 410001230; } else if (v < 100000000000000L) { v ^= 0xfd64d8e57aL; }
        if (v % 413 == 0) { v = v * 414L + 411001233; } else if (v < 1000000000000000L) { v ^= 0xfe03105f2bL; }
        if (v % 414 == 0) { v = v * 415L + 412001236; } else if (v < 10000000000000000L) { v ^= 0xfea147d8dcL; }
        if (v % 415 == 0) { v = v * 416L + 413001239; } else if (v < 100000000000000000L) { v ^= 0xff3f7f528dL; }
        if (v % 416 == 0) { v = v * 417L + 414001242; } else if (v < 1L) { v ^= 0xffddb6cc3eL; }
        if (v % 417 == 0) { v = v * 418L + 415001245; } else if (v < 10L) { v ^= 0x1007bee45efL; }
        if (v % 418 == 0) { v = v * 419L + 416001248; } else if (v < 100L) { v ^= 0x1011a25bfa0L; }
        if (v % 419 == 0) { v = v * 420L + 417001251; } else if (v < 1000L) { v ^= 0x101b85d3951L; }
        if (v % 420 == 0) { v = v * 421L + 418001254; } else if (v < 10000L) { v ^= 0x1025694b302L; }
        if (v % 421 == 0) { v = v * 422L + 419001257; } else if (v < 100000L) { v ^= 0x102f4cc2cb3L; }
        if (v % 422 == 0) { v = v * 423L + 420001260; } else if (v < 1000000L) { v ^= 0x1039303a664L; }
        if (v % 423 == 0) { v = v * 424L + 421001263; } else if (v < 10000000L) { v ^= 0x104313b2015L; }
        if (v % 424 == 0) { v = v * 425L + 422001266; } else if (v < 100000000L) { v ^= 0x104cf7299c6L; }
        if (v % 425 == 0) { v = v * 426L + 423001269; } else if (v < 1000000000L) { v ^= 0x1056daa1377L; }
        if (v % 426 == 0) { v = v * 427L + 424001272; } else if (v < 10000000000L) { v ^= 0x1060be18d28L; }
        if (v % 427 == 0) { v = v * 428L + 425001275; } else if (v < 100000000000L) { v ^= 0x106aa1906d9L; }
        if (v % 428 == 0) { v = v * 429L + 426001278; } else if (v < 1000000000000L) { v ^= 0x1074850808aL; }
        if (v % 429 == 0) { v = v * 430L + 427001281; } else if (v < 10000000000000L) { v ^= 0x107e687fa3bL; }
        if (v % 430 == 0) { v = v * 431L + 428001284; } else if (v < 100000000000000L) { v ^= 0x10884bf73ecL; }
        if (v % 431 == 0) { v = v * 432L + 429001287; } else if (v < 1000000000000000L) { v ^= 0x10922f6ed9dL; }
        if (v % 432 == 0) { v = v * 433L + 430001290; } else if (v < 10000000000000000L) { v ^= 0x109c12e674eL; }
        if (v % 433 == 0) { v = v * 434L + 431001293; } else if (v < 100000000000000000L) { v ^= 0x10a5f65e0ffL; }
        if (v % 434 == 0) { v = v * 435L + 432001296; } else if (v < 1L) { v ^= 0x10afd9d5ab0L; }
        if (v % 435 == 0) { v = v * 436L + 433001299; } else if (v < 10L) { v ^= 0x10b9bd4d461L; }
        if (v % 436 == 0) { v = v * 437L + 434001302; } else if (v < 100L) { v ^= 0x10c3a0c4e12L; }
        if (v % 437 == 0) { v = v * 438L + 435001305; } else if (v < 1000L) { v ^= 0x10cd843c7c3L; }
        if (v % 438 == 0) { v = v * 439L + 436001308; } else if (v < 10000L) { v ^= 0x10d767b4174L; }
        if (v % 439 == 0) { v = v * 440L + 437001311; } else if (v < 100000L) { v ^= 0x10e14b2bb25L; }
        if (v % 440 == 0) { v = v * 441L + 438001314; } else if (v < 1000000L) { v ^= 0x10eb2ea34d6L; }
        if (v % 441 == 0) { v = v * 442L + 439001317; } else if (v < 10000000L) { v ^= 0x10f5121ae87L; }
        if (v % 442 == 0) { v = v * 443L + 440001320; } else if (v < 100000000L) { v ^= 0x10fef592838L; }
        if (v % 443 == 0) { v = v * 444L + 441001323; } else if (v < 1000000000L) { v ^= 0x1108d90a1e9L; }
        if (v % 444 == 0) { v = v * 445L + 442001326; } else if (v < 10000000000L) { v ^= 0x1112bc81b9aL; }
        if (v % 445 == 0) { v = v * 446L + 443001329; } else if (v < 100000000000L) { v ^= 0x111c9ff954bL; }
        if (v % 446 == 0) { v = v * 447L + 444001332; } else if (v < 1000000000000L) { v ^= 0x11268370efcL; }
        if (v % 447 == 0) { v = v * 448L + 445001335; } else if (v < 10000000000000L) { v ^= 0x113066e88adL; }
        if (v % 448 == 0) { v = v * 449L + 446001338; } else if (v < 100000000000000L) { v ^= 0x113a4a6025eL; }
        if (v % 449 == 0) { v = v * 450L + 447001341; } else if (v < 1000000000000000L) { v ^= 0x11442dd7c0fL; }
        if (v % 450 == 0) { v = v * 451L + 448001344; } else if (v < 10000000000000000L) { v ^= 0x114e114f5c0L; }
        if (v % 451 == 0) { v = v * 452L + 449001347; } else if (v < 100000000000000000L) { v ^= 0x1157f4c6f71L; }
        if (v % 452 == 0) { v = v * 453L + 450001350; } else if (v < 1L) { v ^= 0x1161d83e922L; }
        if (v % 453 == 0) { v = v * 454L + 451001353; } else if (v < 10L) { v ^= 0x116bbbb62d3L; }
        if (v % 454 == 0) { v = v * 455L + 452001356; } else if (v < 100L) { v ^= 0x11759f2dc84L; }
        if (v % 455 == 0) { v = v * 456L + 453001359; } else if (v < 1000L) { v ^= 0x117f82a5635L; }
        if (v % 456 == 0) { v = v * 457L + 454001362; } else if (v < 10000L) { v ^= 0x1189661cfe6L; }
        if (v % 457 == 0) { v = v * 458L + 455001365; } else if (v < 100000L) { v ^= 0x11934994997L; }
        if (v % 458 == 0) { v = v * 459L + 456001368; } else if (v < 1000000L) { v ^= 0x119d2d0c348L; }
        if (v % 459 == 0) { v = v * 460L + 457001371; } else if (v < 10000000L) { v ^= 0x11a71083cf9L; }
        if (v % 460 == 0) { v = v * 461L + 458001374; } else if (v < 100000000L) { v ^= 0x11b0f3fb6aaL; }
        if (v % 461 == 0) { v = v * 462L + 459001377; } else if (v < 1000000000L) { v ^= 0x11bad77305bL; }
        if (v % 462 == 0) { v = v * 463L + 460001380; } else if (v < 10000000000L) { v ^= 0x11c4baeaa0cL; }
        if (v % 463 == 0) { v = v * 464L + 461001383; } else if (v < 100000000000L) { v ^= 0x11ce9e623bdL; }
        if (v % 464 == 0) { v = v * 465L + 462001386; } else if (v < 1000000000000L) { v ^= 0x11d881d9d6eL; }
        if (v % 465 == 0) { v = v * 466L + 463001389; } else if (v < 10000000000000L) { v ^= 0x11e2655171fL; }
        if (v % 466 == 0) { v = v * 467L + 464001392; } else if (v < 100000000000000L) { v ^= 0x11ec48c90d0L; }
        if (v % 467 == 0) { v = v * 468L + 465001395; } else if (v < 1000000000000000L) { v ^= 0x11f62c40a81L; }
        if (v % 468 == 0) { v = v * 469L + 466001398; } else if (v < 10000000000000000L) { v ^= 0x12000fb8432L; }
        if (v % 469 == 0) { v = v * 470L + 467001401; } else if (v < 100000000000000000L) { v ^= 0x1209f32fde3L; }
        if (v % 470 == 0) { v = v * 471L + 468001404; } else if (v < 1L) { v ^= 0x1213d6a7794L; }
        if (v % 471 == 0) { v = v * 472L + 469001407; } else if (v < 10L) { v ^= 0x121dba1f145L; }
        if (v % 472 == 0) { v = v * 473L + 470001410; } else if (v < 100L) { v ^= 0x12279d96af6L; }
        if (v % 473 == 0) { v = v * 474L + 471001413; } else if (v < 1000L) { v ^= 0x1231810e4a7L; }
        if (v % 474 == 0) { v = v * 475L + 472001416; } else if (v < 10000L) { v ^= 0x123b6485e58L; }
        if (v % 475 == 0) { v = v * 476L + 473001419; } else if (v < 100000L) { v ^= 0x124547fd809L; }
        if (v % 476 == 0) { v = v * 477L + 474001422; } else if (v < 1000000L) { v ^= 0x124f2b751baL; }
        if (v % 477 == 0) { v = v * 478L + 475001425; } else if (v < 10000000L) { v ^= 0x12590eecb6bL; }
        if (v % 478 == 0) { v = v * 479L + 476001428; } else if (v < 100000000L) { v ^= 0x1262f26451cL; }
        if (v % 479 == 0) { v = v * 480L + 477001431; } else if (v < 1000000000L) { v ^= 0x126cd5dbecdL; }
        if (v % 480 == 0) { v = v * 481L + 478001434; } else if (v < 10000000000L) { v ^= 0x1276b95387eL; }
        if (v % 481 == 0) { v = v * 482L + 479001437; } else if (v < 100000000000L) { v ^= 0x12809ccb22fL; }
        if (v % 482 == 0) { v = v * 483L + 480001440; } else if (v < 1000000000000L) { v ^= 0x128a8042be0L; }
        if (v % 483 == 0) { v = v * 484L + 481001443; } else if (v < 10000000000000L) { v ^= 0x129463ba591L; }
        if (v % 484 == 0) { v = v * 485L + 482001446; } else if (v < 100000000000000L) { v ^= 0x129e4731f42L; }
        if (v % 485 == 0) { v = v * 486L + 483001449; } else if (v < 1000000000000000L) { v ^= 0x12a82aa98f3L; }
        if (v % 486 == 0) { v = v * 487L + 484001452; } else if (v < 10000000000000000L) { v ^= 0x12b20e212a4L; }
        if (v % 487 == 0) { v = v * 488L + 485001455; } else if (v < 100000000000000000L) { v ^= 0x12bbf198c55L; }
        if (v % 488 == 0) { v = v * 489L + 486001458; } else if (v < 1L) { v ^= 0x12c5d510606L; }
        if (v % 489 == 0) { v = v * 490L + 487001461; } else if (v < 10L) { v ^= 0x12cfb887fb7L; }
        if (v % 490 == 0) { v = v * 491L + 488001464; } else if (v < 100L) { v ^= 0x12d99bff968L; }
        if (v % 491 == 0) { v = v * 492L + 489001467; } else if (v < 1000L) { v ^= 0x12e37f77319L; }
        if (v % 492 == 0) { v = v * 493L + 490001470; } else if (v < 10000L) { v ^= 0x12ed62eeccaL; }
        if (v % 493 == 0) { v = v * 494L + 491001473; } else if (v < 100000L) { v ^= 0x12f7466667bL; }
        if (v % 494 == 0) { v = v * 495L + 492001476; } else if (v < 1000000L) { v ^= 0x130129de02cL; }
        if (v % 495 == 0) { v = v * 496L + 493001479; } else if (v < 10000000L) { v ^= 0x130b0d559ddL; }
        if (v % 496 == 0) { v = v * 497L + 494001482; } else if (v < 100000000L) { v ^= 0x1314f0cd38eL; }
        if (v % 497 == 0) { v = v * 498L + 495001485; } else if (v < 1000000000L) { v ^= 0x131ed444d3fL; }
        if (v % 498 == 0) { v = v * 499L + 496001488; } else if (v < 10000000000L) { v ^= 0x1328b7bc6f0L; }
        if (v % 499 == 0) { v = v * 500L + 497001491; } else if (v < 100000000000L) { v ^= 0x13329b340a1L; }
        if (v % 500 == 0) { v = v * 501L + 498001494; } else if (v < 1000000000000L) { v ^= 0x133c7eaba52L; }
        if (v % 501 == 0) { v = v * 502L + 499001497; } else if (v < 10000000000000L) { v ^= 0x13466223403L; }
        if (v % 502 == 0) { v = v * 503L + 500001500; } else if (v < 100000000000000L) { v ^= 0x1350459adb4L; }
        if (v % 503 == 0) { v = v * 504L + 501001503; } else if (v < 1000000000000000L) { v ^= 0x135a2912765L; }
        if (v % 504 == 0) { v = v * 505L + 502001506; } else if (v < 10000000000000000L) { v ^= 0x13640c8a116L; }
        if (v % 505 == 0) { v = v * 506L + 503001509; } else if (v < 100000000000000000L) { v ^= 0x136df001ac7L; }
        if (v % 506 == 0) { v = v * 507L + 504001512; } else if (v < 1L) { v ^= 0x1377d379478L; }
        if (v % 507 == 0) { v = v * 508L + 505001515; } else if (v < 10L) { v ^= 0x1381b6f0e29L; }
        if (v % 508 == 0) { v = v * 509L + 506001518; } else if (v < 100L) { v ^= 0x138b9a687daL; }
        if (v % 509 == 0) { v = v * 510L + 507001521; } else if (v < 1000L) { v ^= 0x13957de018bL; }
        if (v % 510 == 0) { v = v * 511L + 508001524; } else if (v < 10000L) { v ^= 0x139f6157b3cL; }
        if (v % 511 == 0) { v = v * 512L + 509001527; } else if (v < 100000L) { v ^= 0x13a944cf4edL; }
        if (v % 512 == 0) { v = v * 513L + 510001530; } else if (v < 1000000L) { v ^= 0x13b32846e9eL; }
        if (v % 513 == 0) { v = v * 514L + 511001533; } else if (v < 10000000L) { v ^= 0x13bd0bbe84fL; }
        if (v % 514 == 0) { v = v * 515L + 512001536; } else if (v < 100000000L) { v ^= 0x13c6ef36200L; }
        if (v % 515 == 0) { v = v * 516L + 513001539; } else if (v < 1000000000L) { v ^= 0x13d0d2adbb1L; }
        if (v % 516 == 0) { v = v * 517L + 514001542; } else if (v < 10000000000L) { v ^= 0x13dab625562L; }
        if (v % 517 == 0) { v = v * 518L + 515001545; } else if (v < 100000000000L) { v ^= 0x13e4999cf13L; }
        if (v % 518 == 0) { v = v * 519L + 516001548; } else if (v < 1000000000000L) { v ^= 0x13ee7d148c4L; }
        if (v % 519 == 0) { v = v * 520L + 517001551; } else if (v < 10000000000000L) { v ^= 0x13f8608c275L; }
        if (v % 520 == 0) { v = v * 521L + 518001554; } else if (v < 100000000000000L) { v ^= 0x14024403c26L; }
        if (v % 521 == 0) { v = v * 522L + 519001557; } else if (v < 1000000000000000L) { v ^= 0x140c277b5d7L; }
        if (v % 522 == 0) { v = v * 523L + 520001560; } else if (v < 10000000000000000L) { v ^= 0x14160af2f88L; }
        if (v % 523 == 0) { v = v * 524L + 521001563; } else if (v < 100000000000000000L) { v ^= 0x141fee6a939L; }
        if (v % 524 == 0) { v = v * 525L + 522001566; } else if (v < 1L) { v ^= 0x1429d1e22eaL; }
        if (v % 525 == 0) { v = v * 526L + 523001569; } else if (v < 10L) { v ^= 0x1433b559c9bL; }
        if (v % 526 == 0) { v = v * 527L + 524001572; } else if (v < 100L) { v ^= 0x143d98d164cL; }
        if (v % 527 == 0) { v = v * 528L + 525001575; } else if (v < 1000L) { v ^= 0x14477c48ffdL; }
        if (v % 528 == 0) { v = v * 529L + 526001578; } else if (v < 10000L) { v ^= 0x14515fc09aeL; }
        if (v % 529 == 0) { v = v * 530L + 527001581; } else if (v < 100000L) { v ^= 0x145b433835fL; }
        if (v % 530 == 0) { v = v * 531L + 528001584; } else if (v < 1000000L) { v ^= 0x146526afd10L; }
        if (v % 531 == 0) { v = v * 532L + 529001587; } else if (v < 10000000L) { v ^= 0x146f0a276c1L; }
        if (v % 532 == 0) { v = v * 533L + 530001590; } else if (v < 100000000L) { v ^= 0x1478ed9f072L; }
        if (v % 533 == 0) { v = v * 534L + 531001593; } else if (v < 1000000000L) { v ^= 0x1482d116a23L; }
        if (v % 534 == 0) { v = v * 535L + 532001596; } else if (v < 10000000000L) { v ^= 0x148cb48e3d4L; }
        if (v % 535 == 0) { v = v * 536L + 533001599; } else if (v < 100000000000L) { v ^= 0x14969805d85L; }
        if (v % 536 == 0) { v = v * 537L + 534001602; } else if (v < 1000000000000L) { v ^= 0x14a07b7d736L; }
        if (v % 537 == 0) { v = v * 538L + 535001605; } else if (v < 10000000000000L) { v ^= 0x14aa5ef50e7L; }
        if (v % 538 == 0) { v = v * 539L + 536001608; } else if (v < 100000000000000L) { v ^= 0x14b4426ca98L; }
        if (v % 539 == 0) { v = v * 540L + 537001611; } else if (v < 1000000000000000L) { v ^= 0x14be25e4449L; }
        if (v % 540 == 0) { v = v * 541L + 538001614; } else if (v < 10000000000000000L) { v ^= 0x14c8095bdfaL; }
        if (v % 541 == 0) { v = v * 542L + 539001617; } else if (v < 100000000000000000L) { v ^= 0x14d1ecd37abL; }
        if (v % 542 == 0) { v = v * 543L + 540001620; } else if (v < 1L) { v ^= 0x14dbd04b15cL; }
        if (v % 543 == 0) { v = v * 544L + 541001623; } else if (v < 10L) { v ^= 0x14e5b3c2b0dL; }
        if (v % 544 == 0) { v = v * 545L + 542001626; } else if (v < 100L) { v ^= 0x14ef973a4beL; }
        if (v % 545 == 0) { v = v * 546L + 543001629; } else if (v < 1000L) { v ^= 0x14f97ab1e6fL; }
        if (v % 546 == 0) { v = v * 547L + 544001632; } else if (v < 10000L) { v ^= 0x15035e29820L; }
        if (v % 547 == 0) { v = v * 548L + 545001635; } else if (v < 100000L) { v ^= 0x150d41a11d1L; }
        if (v % 548 == 0) { v = v * 549L + 546001638; } else if (v < 1000000L) { v ^= 0x15172518b82L; }
        if (v % 549 == 0) { v = v * 550L + 547001641; } else if (v < 10000000L) { v ^= 0x15210890533L; }
        if (v % 550 == 0) { v = v * 551L + 548001644; } else if (v < 100000000L) { v ^= 0x152aec07ee4L; }
        if (v % 551 == 0) { v = v * 552L + 549001647; } else if (v < 1000000000L) { v ^= 0x1534cf7f895L; }
        if (v % 552 == 0) { v = v * 553L + 550001650; } else if (v < 10000000000L) { v ^= 0x153eb2f7246L; }
        if (v % 553 == 0) { v = v * 554L + 551001653; } else if (v < 100000000000L) { v ^= 0x1548966ebf7L; }
        if (v % 554 == 0) { v = v * 555L + 552001656; } else if (v < 1000000000000L) { v ^= 0x155279e65a8L; }
        if (v % 555 == 0) { v = v * 556L + 553001659; } else if (v < 10000000000000L) { v ^= 0x155c5d5df59L; }
        if (v % 556 == 0) { v = v * 557L + 554001662; } else if (v < 100000000000000L) { v ^= 0x156640d590aL; }
        if (v % 557 == 0) { v = v * 558L + 555001665; } else if (v < 1000000000000000L) { v ^= 0x1570244d2bbL; }
        if (v % 558 == 0) { v = v * 559L + 556001668; } else if (v < 10000000000000000L) { v ^= 0x157a07c4c6cL; }
        if (v % 559 == 0) { v = v * 560L + 557001671; } else if (v < 100000000000000000L) { v ^= 0x1583eb3c61dL; }
        if (v % 560 == 0) { v = v * 561L + 558001674; } else if (v < 1L) { v ^= 0x158dceb3fceL; }
        if (v % 561 == 0) { v = v * 562L + 559001677; } else if (v < 10L) { v ^= 0x1597b22b97fL; }
        if (v % 562 == 0) { v = v * 563L + 560001680; } else if (v < 100L) { v ^= 0x15a195a3330L; }
        if (v % 563 == 0) { v = v * 564L + 561001683; } else if (v < 1000L) { v ^= 0x15ab791ace1L; }
        if (v % 564 == 0) { v = v * 565L + 562001686; } else if (v < 10000L) { v ^= 0x15b55c92692L; }
        if (v % 565 == 0) { v = v * 566L + 563001689; } else if (v < 100000L) { v ^= 0x15bf400a043L; }
        if (v % 566 == 0) { v = v * 567L + 564001692; } else if (v < 1000000L) { v ^= 0x15c923819f4L; }
        if (v % 567 == 0) { v = v * 568L + 565001695; } else if (v < 10000000L) { v ^= 0x15d306f93a5L; }
        if (v % 568 == 0) { v = v * 569L + 566001698; } else if (v < 100000000L) { v ^= 0x15dcea70d56L; }
        if (v % 569 == 0) { v = v * 570L + 567001701; } else if (v < 1000000000L) { v ^= 0x15e6cde8707L; }
        if (v % 570 == 0) { v = v * 571L + 568001704; } else if (v < 10000000000L) { v ^= 0x15f0b1600b8L; }
        if (v % 571 == 0) { v = v * 572L + 569001707; } else if (v < 100000000000L) { v ^= 0x15fa94d7a69L; }
        if (v % 572 == 0) { v = v * 573L + 570001710; } else if (v < 1000000000000L) { v ^= 0x1604784f41aL; }
        if (v % 573 == 0) { v = v * 574L + 571001713; } else if (v < 10000000000000L) { v ^= 0x160e5bc6dcbL; }
        if (v % 574 == 0) { v = v * 575L + 572001716; } else if (v < 100000000000000L) { v ^= 0x16183f3e77cL; }
        if (v % 575 == 0) { v = v * 576L + 573001719; } else if (v < 1000000000000000L) { v ^= 0x162222b612dL; }
        if (v % 576 == 0) { v = v * 577L + 574001722; } else if (v < 10000000000000000L) { v ^= 0x162c062dadeL; }
        if (v % 577 == 0) { v = v * 578L + 575001725; } else if (v < 100000000000000000L) { v ^= 0x1635e9a548fL; }
        if (v % 578 == 0) { v = v * 579L + 576001728; } else if (v < 1L) { v ^= 0x163fcd1ce40L; }
        if (v % 579 == 0) { v = v * 580L + 577001731; } else if (v < 10L) { v ^= 0x1649b0947f1L; }
        if (v % 580 == 0) { v = v * 581L + 578001734; } else if (v < 100L) { v ^= 0x1653940c1a2L; }
        if (v % 581 == 0) { v = v * 582L + 579001737; } else if (v < 1000L) { v ^= 0x165d7783b53L; }
        if (v % 582 == 0) { v = v * 583L + 580001740; } else if (v < 10000L) { v ^= 0x16675afb504L; }
        if (v % 583 == 0) { v = v * 584L + 581001743; } else if (v < 100000L) { v ^= 0x16713e72eb5L; }
        if (v % 584 == 0) { v = v * 585L + 582001746; } else if (v < 1000000L) { v ^= 0x167b21ea866L; }
        if (v % 585 == 0) { v = v * 586L + 583001749; } else if (v < 10000000L) { v ^= 0x16850562217L; }
        if (v % 586 == 0) { v = v * 587L + 584001752; } else if (v < 100000000L) { v ^= 0x168ee8d9bc8L; }
        if (v % 587 == 0) { v = v * 588L + 585001755; } else if (v < 1000000000L) { v ^= 0x1698cc51579L; }
        if (v % 588 == 0) { v = v * 589L + 586001758; } else if (v < 10000000000L) { v ^= 0x16a2afc8f2aL; }
        if (v % 589 == 0) { v = v * 590L + 587001761; } else if (v < 100000000000L) { v ^= 0x16ac93408dbL; }
        if (v % 590 == 0) { v = v * 591L + 588001764; } else if (v < 1000000000000L) { v ^= 0x16b676b828cL; }
        if (v % 591 == 0) { v = v * 592L + 589001767; } else if (v < 10000000000000L) { v ^= 0x16c05a2fc3dL; }
        if (v % 592 == 0) { v = v * 593L + 590001770; } else if (v < 100000000000000L) { v ^= 0x16ca3da75eeL; }
        if (v % 593 == 0) { v = v * 594L + 591001773; } else if (v < 1000000000000000L) { v ^= 0x16d4211ef9fL; }
        if (v % 594 == 0) { v = v * 595L + 592001776; } else if (v < 10000000000000000L) { v ^= 0x16de0496950L; }
        if (v % 595 == 0) { v = v * 596L + 593001779; } else if (v < 100000000000000000L) { v ^= 0x16e7e80e301L; }
        if (v % 596 == 0) { v = v * 597L + 594001782; } else if (v < 1L) { v ^= 0x16f1cb85cb2L; }
        if (v % 597 == 0) { v = v * 598L + 595001785; } else if (v < 10L) { v ^= 0x16fbaefd663L; }
        if (v % 598 == 0) { v = v * 599L + 596001788; } else if (v < 100L) { v ^= 0x17059275014L; }
        if (v % 599 == 0) { v = v * 600L + 597001791; } else if (v < 1000L) { v ^= 0x170f75ec9c5L; }
        if (v % 600 == 0) { v = v * 601L + 598001794; } else if (v < 10000L) { v ^= 0x17195964376L; }
        if (v % 601 == 0) { v = v * 602L + 599001797; } else if (v < 100000L) { v ^= 0x17233cdbd27L; }
        return v;
    }
}
