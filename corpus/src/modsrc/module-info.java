@Deprecated
open module my.mod {
    requires java.base;
    requires transitive java.logging;
    requires static java.compiler;
    exports q to java.logging, java.compiler;
    uses java.util.function.Supplier;
    provides java.lang.Runnable with q.R;
}
