package q;
public class R implements Runnable { public void run() { } public static void main(String[] a) { } }
